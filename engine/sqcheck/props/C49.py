"""C49 In-memory object data returns exactly what was written: structural clauses of mem_hdr / mem_node (DESIGN.md 5/C49).

Decided here: the *shape* clauses of src/stmem.cc and src/mem_node.cc -- which comparison gates which action (a finite table of
orderings), which expression is copied where with which bound, and the per-iteration bookkeeping of the copy/write loops.
Every clause is read off symbolic linear forms of the expressions in the current source; a shape the recogniser does not
understand ends the analysis (exit 2), only a recognised shape that contradicts the clause is a violation."""
import re

from .. import expr as E
from ..flow import ev_call
from ..units import AnalysisBroken

ALL = frozenset("<=>")


class Unrec(Exception):
    """expression outside the linear fragment"""


def fmt(d):
    d = {k: v for k, v in d.items() if v}
    if not d:
        return "0"
    if list(d.values()) == [1] and "" not in d:
        return next(iter(d))
    return " ".join(("%+d*%s" % (v, k)) if k else "%+d" % v for k, v in sorted(d.items()))


def add(a, b, sign=1):
    out = dict(a)
    for k, v in b.items():
        out[k] = out.get(k, 0) + sign * v
    return {k: v for k, v in out.items() if v}


def mm(f, *forms):
    """atom of min()/max() over operands given as rendered linear forms"""
    return {"%s(%s)" % (f, " | ".join(sorted(forms))): 1}


def field(obj, name):
    """canonical atom of obj->nodeBuffer.<name> (obj = E.key of the node expression, 'this' for the implicit object)"""
    return ("" if obj == "this" else obj + ".") + "nodeBuffer." + name


class Terms:
    """linear normal forms {atom: coefficient, '': constant} of the integer/pointer expressions of one function.  Locals with exactly one
    definition are replaced by it; min()/max() become order-insensitive atoms; mem_node::start/end/space are replaced by their
    definitions (rule E1 checks those definitions) when `cap` (the page capacity) is given."""

    def __init__(self, fn, cap=None):
        self.fn, self.cap = fn, cap
        self.ndefs, self.init = {}, {}
        self.unsigned = set()       # atoms of unsigned integer type (their value is >= 0)
        for b in fn.blocks.values():
            for ev in b["ev"]:
                if ev.get("e") == "decl":
                    self.ndefs[ev["d"]] = self.ndefs.get(ev["d"], 0) + 1
                    self.init[ev["d"]] = ev.get("init")
                elif ev.get("e") == "asg":
                    l = E.strip(ev.get("lhs"))
                    if isinstance(l, dict) and l.get("k") == "ref":
                        self.ndefs[l["d"]] = self.ndefs.get(l["d"], 0) + 1
                elif ev.get("e") == "call":
                    x = E.strip(ev.get("x"))
                    o = E.strip(x.get("o")) if isinstance(x, dict) and "o" in x and not x.get("cm") else None
                    if isinstance(o, dict) and o.get("k") == "ref" and not o.get("t", "").rstrip().endswith("*"):
                        self.ndefs[o["d"]] = self.ndefs.get(o["d"], 0) + 1      # non-const method on a local object (++it, buf.consume())
                    for i, a in enumerate(x.get("a", []) if isinstance(x, dict) else []):
                        sa = E.strip(a)
                        if isinstance(sa, dict) and (i in x.get("byref", []) or (sa.get("k") == "un" and sa.get("op") == "&")):
                            n = E.root_decl(sa.get("e") if sa.get("k") == "un" else sa)[1]
                            self.ndefs[n] = self.ndefs.get(n, 0) + 1

    def single(self, name):
        return self.ndefs.get(name) == 1 and self.init.get(name) is not None

    def lin(self, t, expand=True, depth=0):
        d = self._lin(t, expand, depth)
        t = E.strip(t)
        if len(d) == 1 and d.get(E.key(t)) == 1 and t.get("iw", 0) > 1 and t.get("k") in ("ref", "mem", "call"):
            self.unsigned.add(E.key(t))
        return d

    def _lin(self, t, expand=True, depth=0):
        c = E.const(t)
        t = E.strip(t)
        if not isinstance(t, dict):
            raise Unrec()
        if c is not None and t.get("k") != "str":
            return {"": c} if c else {}
        k = t.get("k")
        if k == "ref":
            if expand and t.get("dk") == "local" and self.single(t["d"]) and depth < 8:
                try:
                    return self.lin(self.init[t["d"]], expand, depth + 1)
                except Unrec:
                    pass
            return {E.key(t): 1}
        if k == "bin" and t.get("op") in ("+", "-"):
            return add(self.lin(t["l"], expand, depth), self.lin(t["r"], expand, depth), 1 if t["op"] == "+" else -1)
        if k == "un" and t.get("op") == "-":
            return add({}, self.lin(t["e"], expand, depth), -1)
        if k == "call":
            f, a = t.get("f", ""), t.get("a", [])
            if f.split("::")[-1] in ("min", "max") and len(a) == 2:
                return mm(f.split("::")[-1], *[fmt(self.lin(x, expand, depth)) for x in a])
            if self.cap is not None and "o" in t and not a and f in ("mem_node::start", "mem_node::end", "mem_node::space"):
                o = E.key(t["o"])
                if f == "mem_node::space":
                    return {"": self.cap, field(o, "length"): -1}
                return add({field(o, "offset"): 1}, {field(o, "length"): 1} if f == "mem_node::end" else {})
            return {E.key(t): 1}
        if k in ("mem", "idx") or (k == "un" and t.get("op") == "*"):
            return {E.key(t): 1}
        raise Unrec()

    def s(self, t, expand=True):
        return fmt(self.lin(t, expand))

    def form(self, x):
        """operand given as tree, atom name or ready-made linear form"""
        if isinstance(x, str):
            if self.single(x):
                try:
                    return self.lin(self.init[x], True, 1)
                except Unrec:
                    pass
            return {x: 1} if x != "0" else {}
        return x if "k" not in x else self.lin(x)


def fact_atoms(T, t):
    out = set()
    for n in E.walk(t):
        if n.get("k") in ("ref", "mem", "call"):
            try:
                out |= set(T.lin(n, expand=False))
            except Unrec:
                pass
            out.add(E.key(n))
    return out


def orderings(T, site, a, b):
    """(orderings of a ? b that the must-facts at `site` still allow, facts about the same quantities that are not understood).
    With v = a - b, a fact `l < r` / `l == r` / truthiness of x is about the pair when its difference form l - r is +-v + constant; the facts
    then bound v by an interval (plus excluded points), from which the possible signs of v are read."""
    diff = add(a, b, -1)
    var = {k: c for k, c in diff.items() if k}
    foreign = []
    if not var:
        c = diff.get("", 0)
        return {"<" if c < 0 else ">" if c > 0 else "="}, foreign
    lo = hi = None
    ne = set()
    if len(var) == 1 and next(iter(var)) in T.unsigned and abs(next(iter(var.values()))) == 1:
        # a - b is +-(unsigned quantity) + constant
        lo, hi = (diff.get("", 0), None) if next(iter(var.values())) == 1 else (None, diff.get("", 0))
    for f in site.facts:
        if f[0] != "A":
            continue
        t, v = E.strip(site.flow.trees[f[1]]), f[2]
        if t.get("k") == "bin" and t.get("op") == "=":      # (x = f()) tested for truth: the value of x
            t = E.strip(t["l"])
        try:
            if t.get("k") == "bin" and t.get("op") in ("<", "=="):
                op, d = t["op"], add(T.lin(t["l"]), T.lin(t["r"]), -1)
            else:
                op, d = "!=", T.lin(t)
        except Unrec:
            if set(var) <= fact_atoms(T, t):
                foreign.append(f[1])
            continue
        dv = {k: c for k, c in d.items() if k}
        sign = 1 if dv == var else -1 if dv == {k: -c for k, c in var.items()} else 0
        if not sign:
            if set(dv) == set(var):
                foreign.append(f[1])        # same quantities with other coefficients: not decided here
            continue
        # the fact reads  sign * v + k  op  0   with  v = a - b - diff[""]  shifted so that v itself is a - b
        k = d.get("", 0) - sign * diff.get("", 0)
        if op == "<":
            # sign*v + k < 0
            if sign == 1:
                lo, hi = (lo, _min(hi, -k - 1)) if v else (_max(lo, -k), hi)
            else:
                lo, hi = (_max(lo, k + 1), hi) if v else (lo, _min(hi, k))
        else:
            point = -k if sign == 1 else k
            if (op == "==") == bool(v):
                lo, hi = _max(lo, point), _min(hi, point)
            else:
                ne.add(point)
    allowed = set()
    if lo is None or lo <= -1:
        allowed.add("<")
    if (lo is None or lo <= 0) and (hi is None or hi >= 0) and 0 not in ne:
        allowed.add("=")
    if hi is None or hi >= 1:
        allowed.add(">")
    if lo is not None and hi is not None and lo > hi:
        allowed = set()
    return allowed, foreign


def _min(a, b):
    return b if a is None else min(a, b)


def _max(a, b):
    return b if a is None else max(a, b)


class _Edge:
    """the leaves implied by one CFG edge, presented like a site to orderings()"""

    def __init__(self, imp):
        self.flow = self
        self.trees = {i: t for i, (t, v) in enumerate(imp)}
        self.facts = {("A", i, v) for i, (t, v) in enumerate(imp)}


def track_orderings(T, pairs):
    """flow hooks (on_edge, on_event) that remember path-sensitively what the last branch testing each named pair (a, b) implied:
    site.env['%o:name'] is a string over '<=>' (absent: never tested on this path, or an operand was assigned since)"""
    forms = {name: (T.form(a), T.form(b)) for name, (a, b) in pairs.items()}

    def on_edge(blk, lab, imp, env2, f2):
        for name, (a, b) in forms.items():
            allowed = orderings(T, _Edge(imp), a, b)[0]
            if allowed != orderings(T, _Edge([]), a, b)[0]:         # this edge says something about the pair
                env2["%o:" + name] = "".join(sorted(allowed))

    def on_event(ev, env, facts):
        tgt = ev.get("d") if ev.get("e") == "decl" else E.key(ev.get("lhs")) if ev.get("e") == "asg" else None
        for name, (a, b) in forms.items():
            if tgt is not None and (tgt in a or tgt in b):
                env.pop("%o:" + name, None)
    return on_edge, on_event


def gate(ck, rule, T, fl, pred, a, b, want, name, min_sites=1, why="", absent="violation", only=None):
    """DECISION TABLE: at every selected site the ordering of a and b left possible by the guards on all paths lies within `want`
    (a string over '<', '=', '>').  No recognisable guard at all: violation, or exit 2 when absent='broken' (gate redundant by construction)."""
    a, b, want = T.form(a), T.form(b), set(want)
    ss = [s for s in ck.sites(fl, pred, name, min_sites) if only is None or only(s)]
    for s in ss:
        allowed, foreign = orderings(T, s, a, b)
        rel = "(%s) %s (%s)" % (fmt(a), "|".join(sorted(want)), fmt(b))
        if allowed <= want:
            ck.ok(rule, s.where(), "%s: '%s' only with %s [guards leave %s]" % (fl.fn.name, s.desc()[:70], rel, "".join(sorted(allowed)) or "unreachable"))
        elif foreign or (absent == "broken" and allowed == ALL):
            raise AnalysisBroken("%s: cannot decide %s at '%s' in %s from the guards %s" % (rule, rel, s.desc()[:60], fl.fn.name, foreign or "(none)"))
        else:
            ck.violation(rule, "%s|%s|%s|needs:%s" % (rule, fl.fn.name, name, rel), s.where(),
                         "%s: '%s' is reachable with %s not established: the guards on some path allow %s %s"
                         % (fl.fn.name, s.desc()[:90], rel, "".join(sorted(allowed)), why), fl.witness(s))
    return ss


def events(fn, pred):
    return [ev for bid in sorted(fn.blocks, reverse=True) for ev in fn.blocks[bid]["ev"] if pred(ev)]


def the_call(ck, fn, callee, nargs=None):
    c = events(fn, ev_call(callee, nargs=nargs))
    ck.need(len(c) == 1, "%s: expected exactly one call of %s in %s, found %d" % (ck.pid, callee, fn.name, len(c)))
    return E.strip(c[0]["x"])


def same(ck, rule, fn, line, what, got, want, why=""):
    """SHAPE: a recognised linear form must be the expected one"""
    if fmt(got) == fmt(want):
        ck.ok(rule, fn.where(line), "%s: %s is %s" % (fn.name, what, fmt(want)))
    else:
        ck.violation(rule, "%s|%s|%s" % (rule, fn.name, what), fn.where(line), "%s: %s is [%s], the clause needs [%s] %s" % (fn.name, what, fmt(got), fmt(want), why))


def lin_or_broken(T, t, what):
    try:
        return T.lin(t)
    except Unrec:
        raise AnalysisBroken("%s in %s is not a linear expression the recogniser understands: %s" % (what, T.fn.name, E.key(t)[:100]))


def is_ret(ev):
    return ev.get("e") == "ret"


def ret_const(v):
    return lambda ev: ev.get("e") == "ret" and E.const(ev.get("x")) == v and E.strip(ev.get("x")).get("k") in ("lit", "null")


def asg_to(key):
    return lambda ev: ev.get("e") == "asg" and E.key(ev.get("lhs")) == key


def pnames(ck, fn, n):
    ck.need(len(fn.params) == n and all(p.get("d") for p in fn.params), "%s: %s no longer has %d named parameters" % (ck.pid, fn.name, n))
    return [p["d"] for p in fn.params]


# ---------------------------------------------------------------------------------------------------------------- loops
def loop_protocol(ck, rid, fn, T, worker, lookup, buf, why):
    """copy()/write() loop: `n = worker(node, off, amount, ptr)` with node = lookup(off) for the *current* off, both cursors advanced
    and the amount reduced by exactly n once per iteration.  Returns (flow, names) for further gates."""
    x = the_call(ck, fn, worker, 4)
    args = [E.strip(a) for a in x["a"]]
    ck.need(all(a.get("k") == "ref" and a.get("dk") == "local" for a in args), "C49: %s arguments in %s are not four locals" % (worker, fn.name))
    P, L, N, B = (a["d"] for a in args)
    res = [ev["d"] for ev in events(fn, lambda ev: ev.get("e") == "decl" and ev.get("init") is not None and E.key(ev["init"]) == E.key(x))]
    ck.need(len(res) == 1 and T.ndefs.get(res[0]) == 1, "C49: the result of %s is not kept in one local in %s" % (worker, fn.name))
    R = res[0]
    for loc, fld in ((L, "offset"), (N, "length"), (B, "data")):
        ck.need(T.init.get(loc) is not None, "C49: %s has no initialiser in %s" % (loc, fn.name))
        same(ck, rid + ".roles", fn, fn.line, "initial " + loc, lin_or_broken(T, T.init[loc], loc), {"%s.%s" % (buf, fld): 1}, why)
    linit = fmt(T.lin(T.init[L]))

    def on_event(ev, env, facts):
        e = ev.get("e")
        if e == "call" and E.key(ev.get("x")) == E.key(x):
            env["%aL"] = env["%aB"] = env["%aN"] = 0
        if e == "decl":
            tgt, rhs, op = ev["d"], ev.get("init"), "init"
        elif e == "asg":
            l = E.strip(ev.get("lhs"))
            tgt, rhs, op = (l.get("d") if l.get("k") == "ref" else None), ev.get("rhs"), ev.get("op")
        else:
            return
        if tgt == P:
            r = E.strip(rhs) if rhs is not None else {}
            good = False
            if r.get("k") == "call" and r.get("f") == lookup and len(r.get("a", [])) == 1:
                try:        # looked up for the cursor itself, or (before the cursor moved) for the expression the cursor starts from
                    good = T.s(r["a"][0], expand=False) == L or (not env.get("%moved") and T.s(r["a"][0]) == linit)
                except Unrec:
                    pass
            env["%sync"] = 1 if good else 0
        elif tgt in (L, B, N) and e == "asg":
            if tgt == L:
                env["%sync"], env["%moved"] = 0, 1
            r = E.strip(rhs) if rhs is not None else {}
            good = op == ("-=" if tgt == N else "+=") and r.get("k") == "ref" and r.get("d") == R
            k = "%a" + {L: "L", B: "B", N: "N"}[tgt]
            env[k] = min(env.get(k, 0) + 1, 2) if good and env.get(k, 0) < 9 else 9
            if tgt == N:
                env.pop("%done", None)

    def on_edge(b, lab, imp, env2, f2):
        for t, v in imp:
            t = E.strip(t)
            if v:
                continue
            if t.get("k") == "ref" and t.get("d") == N or (t.get("k") == "bin" and t.get("op") == "<" and E.const(t["l"]) == 0 and E.strip(t["r"]).get("d") == N):
                env2["%done"] = 1
            elif t.get("k") == "bin" and t.get("op") == "=" and E.strip(t["l"]).get("d") == P:
                env2["%done"] = 2

    fl = ck.flow(fn, on_event=on_event, on_edge=on_edge)
    is_worker = lambda ev: ev.get("e") == "call" and E.key(ev.get("x")) == E.key(x)
    for s in ck.sites(fl, is_worker, worker + "()", 1):
        if s.env.get("%sync") == 1:
            ck.ok(rid + ".node-for-offset", s.where(), "%s: %s(%s, %s, ..) gets the node that %s(%s) returned for the current %s" % (fn.name, worker, P, L, lookup, L, L))
        else:
            ck.violation(rid + ".node-for-offset", "%s|%s|node-not-looked-up-for-current-offset" % (rid, fn.name), s.where(),
                         "%s: %s is called with node %s that was not obtained from %s(%s) after the last change of %s %s" % (fn.name, worker, P, lookup, L, L, why), fl.witness(s))
        adv = [s.env.get(k) for k in ("%aL", "%aB", "%aN")]
        if all(v in (None, 1) for v in adv):
            ck.ok(rid + ".advance", s.where(), "%s: between two %s calls %s += %s, %s += %s, %s -= %s happen exactly once" % (fn.name, worker, L, R, B, R, N, R))
        else:
            ck.violation(rid + ".advance", "%s|%s|advance-by-result" % (rid, fn.name), s.where(),
                         "%s: an iteration reaches the next %s call with (offset, buffer, amount) advanced %s times by its result %s (9 = by something else); exactly once each is needed %s"
                         % (fn.name, worker, adv, R, why), fl.witness(s))
    gate(ck, rid + ".loop-gates", T, fl, is_worker, "0", P, "<>", worker + "()", why="(no node for this offset)")
    gate(ck, rid + ".loop-gates", T, fl, is_worker, "0", N, "<>", worker + "()", why="(nothing left to transfer)")
    return fl, (P, L, N, B, R)


# ---------------------------------------------------------------------------------------------------------------- run
def run(ck):
    facts = ck.facts(["src/stmem.cc", "src/mem_node.cc"], whole=True)
    MH, MN = "mem_hdr::", "mem_node::"

    # ------------------------------------------------------------------ E: the extent of one node (mem_node.cc)
    ck.rule("E1 SHAPE mem_node: the constructor binds nodeBuffer = (length 0, offset = its parameter, data = the page array); start() is nodeBuffer.offset, end() is "
            "offset + length, space() is <extent of the page array> - length, dataRange() is Range(start(), end()), operator< orders by start()")
    ctor = facts.fn(MN + "mem_node")
    T0 = Terms(ctor)
    ini = events(ctor, lambda ev: ev.get("e") == "asg" and ev.get("op") == "init" and E.strip(ev["lhs"]).get("m") == MN + "nodeBuffer")
    ck.need(len(ini) == 1 and E.strip(ini[0]["rhs"]).get("k") == "ctor" and len(E.strip(ini[0]["rhs"])["a"]) == 3, "C49: mem_node() no longer initialises nodeBuffer(len, offset, data)")
    a = E.strip(ini[0]["rhs"])["a"]
    same(ck, "E1.ctor", ctor, ini[0]["l"], "initial length", lin_or_broken(T0, a[0], "length"), {})
    same(ck, "E1.ctor", ctor, ini[0]["l"], "node offset", lin_or_broken(T0, a[1], "offset"), {pnames(ck, ctor, 1)[0]: 1})
    page = E.strip(a[2])
    m = re.search(r"\[(\d+)\]$", page.get("t", ""))
    ck.need(page.get("k") == "mem" and page.get("m") == MN + "data" and E.strip(page.get("b")).get("k") == "this" and m, "C49: nodeBuffer.data is not bound to the node's own page array")
    cap = int(m.group(1))
    for name, want in (("start", {field("this", "offset"): 1}), ("end", {field("this", "offset"): 1, field("this", "length"): 1}),
                       ("space", {"": cap, field("this", "length"): -1})):
        fn = facts.fn(MN + name)
        rets = events(fn, is_ret)
        ck.need(len(rets) == 1, "C49: %s has %d returns" % (fn.name, len(rets)))
        same(ck, "E1." + name, fn, rets[0]["l"], "result", lin_or_broken(Terms(fn), rets[0]["x"], "result"), want,
             "(the half-open extent [offset, offset+length) within a page of %d bytes)" % cap)

    def self_call(t, name, obj="this"):
        t = E.strip(t)
        return isinstance(t, dict) and t.get("k") == "call" and t.get("f") == MN + name and not t.get("a") and E.key(t.get("o")) == obj

    fn = facts.fn(MN + "dataRange")
    rets = events(fn, is_ret)
    x = E.strip(rets[0]["x"]) if len(rets) == 1 else {}
    ck.need(x.get("k") == "ctor" and x.get("f") == "Range::Range" and len(x["a"]) == 2 and all(self_call(y, "start") or self_call(y, "end") for y in x["a"]),
            "C49: mem_node::dataRange is no longer Range(<start()|end()>, <start()|end()>)")
    if self_call(x["a"][0], "start") and self_call(x["a"][1], "end"):
        ck.ok("E1.dataRange", fn.where(), "dataRange() is Range(start(), end())")
    else:
        ck.violation("E1.dataRange", "E1|dataRange|argument-roles", fn.where(), "mem_node::dataRange builds %s instead of Range(start(), end())" % E.key(x))
    fn = facts.fn(MN + "operator<")
    rets = events(fn, is_ret)
    rhs = pnames(ck, fn, 1)[0]
    x, pol = E.norm(rets[0]["x"]) if len(rets) == 1 else ({}, True)
    x = E.strip(x) or {}
    ck.need(x.get("k") == "bin" and x.get("op") == "<" and {E.key(x["l"]), E.key(x["r"])} == {"start()", rhs + ".start()"} and self_call(x["l"], "start", E.key(E.strip(x["l"])["o"])),
            "C49: mem_node::operator< is no longer a comparison of start() with %s.start()" % rhs)
    if pol and E.key(x["l"]) == "start()":
        ck.ok("E1.less", fn.where(), "operator< is start() < %s.start()" % rhs)
    else:
        ck.violation("E1.less", "E1|operator<|orientation", fn.where(), "mem_node::operator< computes %s%s: nodes would be ordered backwards in the splay" % ("" if pol else "!", E.key(x)))

    ck.rule("E2 TABLE mem_node::canAccept(loc): `return true` only with loc == end() and space() > 0")
    fn = facts.fn(MN + "canAccept")
    T, fl = Terms(fn, cap), ck.flow(fn)
    loc = pnames(ck, fn, 1)[0]
    gate(ck, "E2.canAccept", T, fl, ret_const(1), loc, {field("this", "offset"): 1, field("this", "length"): 1}, "=", "return true", why="(a node would accept data that leaves a gap or overlaps)")
    gate(ck, "E2.canAccept", T, fl, ret_const(1), "0", {"": cap, field("this", "length"): -1}, "<", "return true", why="(a full page would accept more data)")

    # ------------------------------------------------------------------ R/N/G: lookup of the node holding one offset
    ck.rule("R1 SHAPE Range<>: the constructor stores (start_, end_) in that order; intersection() is Range(max(start, rhs.start), min(end, rhs.end)); "
            "size() is end > start ? end - start : 0")
    insts = [f for f in facts.fns("Range::intersection", tmpl=2)]
    ck.need(insts, "C49: no instantiation of Range::intersection in stmem.cc")
    for fn in insts:
        T = Terms(fn)
        rets = events(fn, is_ret)
        x = E.strip(rets[0]["x"]) if len(rets) == 1 else {}
        if x.get("k") == "ref" and T.single(x["d"]):
            x = E.strip(T.init[x["d"]])
        ck.need(x.get("k") == "ctor" and x.get("f") == "Range::Range" and len(x["a"]) == 2, "C49: Range::intersection does not return Range(a, b)")
        r = pnames(ck, fn, 1)[0]
        same(ck, "R1.intersection", fn, fn.line, "start of the result", lin_or_broken(T, x["a"][0], "start"), mm("max", "start", r + ".start"))
        same(ck, "R1.intersection", fn, fn.line, "end of the result", lin_or_broken(T, x["a"][1], "end"), mm("min", "end", r + ".end"))
    for fn in facts.fns("Range::size", tmpl=2):
        T = Terms(fn)
        rets = events(fn, is_ret)
        x = E.strip(rets[0]["x"]) if len(rets) == 1 else {}
        ck.need(x.get("k") == "cond", "C49: Range::size is no longer a conditional expression")
        c, pol = E.norm(x["c"])
        c = E.strip(c)
        ck.need(c.get("k") == "bin" and c.get("op") in ("<", "==") and {E.key(c["l"]), E.key(c["r"])} == {"start", "end"}, "C49: Range::size does not compare start with end")
        pos, other = (x["t"], x["f"]) if pol else (x["f"], x["t"])
        if c["op"] == "<" and E.key(c["l"]) == "start" and fmt(lin_or_broken(T, pos, "size")) == fmt({"end": 1, "start": -1}) and E.const(other) == 0:
            ck.ok("R1.size", fn.where(), "size() is end - start when start < end, else 0")
        else:
            ck.violation("R1.size", "R1|Range::size|table", fn.where(), "Range::size computes %s: an overlap test `intersection().size() > 0` no longer means 'shares a byte'" % E.key(x))
    for fn in [f for f in facts.fns("Range::Range", tmpl=2) if len(f.params) == 2]:
        p = pnames(ck, fn, 2)
        for i, mname in enumerate(("Range::start", "Range::end")):
            w = events(fn, lambda ev: ev.get("e") == "asg" and E.strip(ev["lhs"]).get("m") == mname)
            ck.need(len(w) == 1, "C49: Range(start_, end_) no longer initialises %s once" % mname)
            same(ck, "R1.ctor", fn, w[0]["l"], mname, lin_or_broken(Terms(fn), w[0]["rhs"], mname), {p[i]: 1})

    ck.rule("N1 TABLE mem_hdr::NodeCompare(left, right): `return 0` only with left->dataRange().intersection(right->dataRange()).size() > 0; "
            "every other return is (*left < *right) ? -1 : 1")
    fn = facts.fn(MH + "NodeCompare")
    T, fl = Terms(fn), ck.flow(fn)
    lft, rgt = pnames(ck, fn, 2)
    sz = the_call(ck, fn, "Range::size")
    ix = E.strip(sz.get("o"))
    ck.need(ix.get("k") == "call" and ix.get("f") == "Range::intersection" and len(ix["a"]) == 1 and
            {E.key(ix["o"]), E.key(ix["a"][0])} == {lft + ".dataRange()", rgt + ".dataRange()"} and
            all(E.strip(y).get("f") == MN + "dataRange" for y in (ix["o"], ix["a"][0])), "C49: NodeCompare no longer intersects the data ranges of its two arguments")
    gate(ck, "N1.equal-iff-overlap", T, fl, ret_const(0), "0", sz, "<>", "return 0", why="(disjoint nodes would compare equal: lookups return the wrong node)")
    others = [ev for ev in events(fn, is_ret) if not ret_const(0)(ev)]
    ck.need(len(others) == 1, "C49: NodeCompare has %d non-zero returns" % len(others))
    x = E.strip(others[0]["x"])
    c = E.strip(x.get("c")) if x.get("k") == "cond" else {}
    ck.need(c.get("k") == "call" and c.get("f") == MN + "operator<" and {E.key(c["o"]), E.key(c["a"][0])} == {"*" + lft, "*" + rgt} and
            E.const(x["t"]) is not None and E.const(x["f"]) is not None, "C49: NodeCompare's ordering result is no longer (*a < *b) ? K1 : K2")
    lt, ge = (E.const(x["t"]), E.const(x["f"])) if E.key(c["o"]) == "*" + lft else (E.const(x["f"]), E.const(x["t"]))
    if lt < 0 < ge:
        ck.ok("N1.order", fn.where(others[0]["l"]), "NodeCompare is negative for *left < *right and positive otherwise")
    else:
        ck.violation("N1.order", "N1|NodeCompare|sign", fn.where(others[0]["l"]), "NodeCompare returns %s for left < right and %s otherwise: the splay is searched in the wrong direction" % (lt, ge))

    ck.rule("G1 SHAPE mem_hdr::getBlockContainingLocation(loc): probes nodes.find() with a node of offset loc whose length was set to 1 (the byte [loc, loc+1)) "
            "and NodeCompare; returns *result exactly when result is non-null, else nullptr")
    fn = facts.fn(MH + "getBlockContainingLocation")
    T = Terms(fn)
    loc = pnames(ck, fn, 1)[0]
    fd = the_call(ck, fn, "Splay::find", 2)
    probe = E.strip(fd["a"][0])
    probe = E.strip(probe.get("e")) if probe.get("k") == "un" and probe.get("op") == "&" else {}
    ck.need(probe.get("k") == "ref" and probe.get("dk") == "local" and E.strip(fd["o"]).get("m") == MH + "nodes" and MH + "NodeCompare" in E.mentions(fd["a"][1]),
            "C49: getBlockContainingLocation no longer calls nodes.find(&<local>, NodeCompare)")
    pi = E.strip(T.init.get(probe["d"]) or {})
    ck.need(pi.get("k") == "ctor" and pi.get("f") == MN + "mem_node" and len(pi["a"]) == 1, "C49: the probe node is not built by mem_node(offset)")
    same(ck, "G1.probe", fn, fn.line, "offset of the probe node", lin_or_broken(T, pi["a"][0], "probe offset"), {loc: 1}, "(the lookup would search for another byte)")
    plen = probe["d"] + ".nodeBuffer.length"
    fl = ck.flow(fn, markers={"len": asg_to(plen)})
    ws = ck.sites(fl, asg_to(plen), "probe length", 1)
    for s in ws:
        same(ck, "G1.probe", fn, s.line, "length of the probe node", lin_or_broken(T, s.ev["rhs"], "probe length"), {"": 1}, "(a probe of another width matches nodes that do not hold byte loc)")
    ck.require_passed("G1.probe", fl, ev_call("Splay::find"), "len", "nodes.find()", why="(the probe would be empty and match nothing)")
    res = [d for d, i in T.init.items() if i is not None and E.key(i) == E.key(fd) and T.single(d)]
    ck.need(len(res) == 1, "C49: the result of nodes.find() is not kept in one local")
    for s in ck.sites(fl, is_ret, "return", 2):
        x = E.strip(s.ev["x"])
        if x.get("k") == "null":
            gate(ck, "G1.result", T, fl, lambda ev, me=s.ev: ev is me, "0", res[0], "=", "return nullptr", why="(a node that holds the byte would be reported missing)")
        else:
            ck.need(x.get("k") == "un" and x.get("op") == "*" and E.strip(x["e"]).get("d") == res[0], "C49: getBlockContainingLocation returns %s" % E.key(x))
            gate(ck, "G1.result", T, fl, lambda ev, me=s.ev: ev is me, "0", res[0], "<>", "return *result")

    # ------------------------------------------------------------------ F: release below an offset
    ck.rule("F1 TABLE mem_hdr::freeDataUpto(target): unlink(n) only with target >= n->end() (no byte at or after target is released) and n != nodes.finish()'s node "
            "(the last node is kept); mem_hdr::unlink(n): nodes.remove(n)/delete n only with n->write_pending false")
    fn = facts.fn(MH + "freeDataUpto")
    T, fl = Terms(fn, cap), ck.flow(fn)
    tgt = pnames(ck, fn, 1)[0]
    ul = the_call(ck, fn, MH + "unlink", 1)
    victim = E.strip(ul["a"][0])
    ck.need(victim.get("k") == "mem" and victim.get("m") == "SplayNode::data" and E.strip(victim["b"]).get("k") == "ref", "C49: freeDataUpto no longer unlinks <splay node>->data")
    v = E.key(victim)
    gate(ck, "F1.below-target", T, fl, ev_call(MH + "unlink"), tgt, {field(v, "offset"): 1, field(v, "length"): 1}, ">=", "unlink()",
         why="(a node holding bytes at or after the release offset would be freed)")
    fin = [n for ev in events(fn, ev_call("Splay::finish")) for n in [E.strip(ev["x"])] if E.strip(n.get("o")).get("m") == MH + "nodes"]
    ck.need(fin, "C49: freeDataUpto no longer consults nodes.finish()")
    gate(ck, "F1.keep-last", T, fl, ev_call(MH + "unlink"), E.strip(victim["b"]), fin[0], "<>", "unlink()", why="(the last node, which may still receive data, would be freed)")
    fn = facts.fn(MH + "unlink")
    T, fl = Terms(fn), ck.flow(fn)
    node = pnames(ck, fn, 1)[0]
    removal = lambda ev: ev.get("e") == "call" and (E.strip(ev["x"]).get("f") == "Splay::remove" or E.strip(ev["x"]).get("k") == "delete")
    for s in ck.sites(fl, removal, "remove/delete", 2):
        x = E.strip(s.ev["x"])
        ck.need(E.key(x["a"][0] if x.get("k") == "call" else x.get("e")) == node, "C49: unlink removes something other than its argument: %s" % E.key(x))
    gate(ck, "F1.not-write-pending", T, fl, removal, "0", node + ".write_pending", "=", "remove/delete", 2, why="(a page with a disk write in flight would be freed)")

    # ------------------------------------------------------------------ W: storing into a node
    ck.rule("W1 SHAPE mem_hdr::writeAvailable(node, loc, amount, src): memcpy(node.data + node.length, src, min(amount, node->space())); node.length grows by that same "
            "amount once, after the copy; the same amount is returned; inmem_hi is only ever set to loc + amount and only with inmem_hi <= loc (it never decreases)")
    fn = facts.fn(MH + "writeAvailable")
    T = Terms(fn, cap)
    node, loc, amount, src = pnames(ck, fn, 4)
    length, hi = field(node, "length"), "inmem_hi"
    grow = lambda ev: ev.get("e") == "asg" and E.key(ev.get("lhs")) == length
    fl = ck.flow(fn, markers={"grown": grow}, track_markers=["grown"])
    size = mm("min", amount, fmt({"": cap, length: -1}))
    for s in ck.sites(fl, ev_call("memcpy", nargs=3), "memcpy", 1):
        a = E.strip(s.ev["x"])["a"]
        same(ck, "W1.copy", fn, s.line, "memcpy destination", lin_or_broken(T, a[0], "destination"), {field(node, "data"): 1, length: 1}, "(data would not be appended at the node's end)")
        same(ck, "W1.copy", fn, s.line, "memcpy source", lin_or_broken(T, a[1], "source"), {src: 1})
        same(ck, "W1.copy", fn, s.line, "memcpy size", lin_or_broken(T, a[2], "size"), size, "(the copy would not be bounded by the caller's amount and the room left in the page)")
        if s.passed("grown"):
            ck.violation("W1.copy-then-grow", "W1|writeAvailable|length-grows-before-copy", s.where(), "writeAvailable updates nodeBuffer.length before memcpy uses it as the destination offset", fl.witness(s))
        else:
            ck.ok("W1.copy-then-grow", s.where(), "memcpy runs before nodeBuffer.length is updated")
    gs = ck.sites(fl, grow, "nodeBuffer.length update", 1)
    for s in gs:
        ck.need(s.ev["op"] in ("+=", "="), "C49: nodeBuffer.length is updated with %s" % s.ev["op"])
        d = lin_or_broken(T, s.ev["rhs"], "length increment")
        same(ck, "W1.grow", fn, s.line, "growth of nodeBuffer.length", d if s.ev["op"] == "+=" else add(d, {length: 1}, -1), size, "(the node would claim more or fewer bytes than were copied)")
        if s.passed("grown"):
            ck.violation("W1.grow", "W1|writeAvailable|length-grows-twice", s.where(), "nodeBuffer.length is updated twice on one path", fl.witness(s))
    for s in ck.sites(fl, is_ret, "return", 1):
        same(ck, "W1.result", fn, s.line, "returned count", lin_or_broken(T, s.ev["x"], "result"), size, "(write() advances by this count)")
        if not s.passed("grown"):
            ck.violation("W1.grow", "W1|writeAvailable|returns-without-growing", s.where(), "writeAvailable can return without adding the copied bytes to nodeBuffer.length", fl.witness(s))
    his = ck.sites(fl, asg_to(hi), "inmem_hi update", 1)
    for s in his:
        ck.need(s.ev["op"] == "=", "C49: inmem_hi is updated with %s" % s.ev["op"])
        same(ck, "W1.high-water", fn, s.line, "new inmem_hi", lin_or_broken(T, s.ev["rhs"], "inmem_hi"), add({loc: 1}, size), "(the end offset must be the end of the bytes just stored)")
    gate(ck, "W1.high-water", T, fl, asg_to(hi), loc, hi, ">=", "inmem_hi update", why="(filling a hole below the end would lower the recorded end offset)")

    ck.rule("A1 SHAPE mem_hdr::copyAvailable(node, loc, amount, dst): memcpy(dst, node.data + (loc - node.offset), min(amount, node.length - (loc - node.offset))) and that "
            "amount is returned; `return 0` (gap) only with node.offset > loc; the copy runs only with node.offset <= loc < node->end() established by a guard")
    fn = facts.fn(MH + "copyAvailable")
    T, fl = Terms(fn, cap), ck.flow(fn)
    node, loc, amount, dst = pnames(ck, fn, 4)
    off, length = field(node, "offset"), field(node, "length")
    size = mm("min", amount, fmt({length: 1, loc: -1, off: 1}))
    for s in ck.sites(fl, ev_call("memcpy", nargs=3), "memcpy", 1):
        a = E.strip(s.ev["x"])["a"]
        same(ck, "A1.copy", fn, s.line, "memcpy destination", lin_or_broken(T, a[0], "destination"), {dst: 1})
        same(ck, "A1.copy", fn, s.line, "memcpy source", lin_or_broken(T, a[1], "source"), {field(node, "data"): 1, loc: 1, off: -1}, "(bytes of another offset would be returned)")
        same(ck, "A1.copy", fn, s.line, "memcpy size", lin_or_broken(T, a[2], "size"), size, "(the copy would not be bounded by the caller's room and the bytes the node holds from loc on)")
    gate(ck, "A1.inside-node", T, fl, ev_call("memcpy"), loc, off, ">=", "memcpy", absent="broken", why="(the offset into the page would be negative)")
    gate(ck, "A1.inside-node", T, fl, ev_call("memcpy"), loc, {off: 1, length: 1}, "<", "memcpy", absent="broken", why="(the node holds nothing at loc: the bound underflows)")
    for s in ck.sites(fl, is_ret, "return", 1):
        if ret_const(0)(s.ev):
            gate(ck, "A1.gap", T, fl, lambda ev, me=s.ev: ev is me, loc, off, "<", "return 0", why="(copy() would stop although the node holds the requested byte)")
        else:
            same(ck, "A1.result", fn, s.line, "returned count", lin_or_broken(T, s.ev["x"], "result"), size, "(copy() advances by this count)")

    # ------------------------------------------------------------------ C / WR: the loops
    ck.rule("C1 LOOP mem_hdr::copy(target): cursors start at target.offset/.data/.length; copyAvailable(p, location, bytes_to_go, ptr) runs only with p != null and "
            "bytes_to_go > 0, p being getBlockContainingLocation(location) for the current location (so the walk ends at the first missing byte); per iteration location and "
            "ptr advance and bytes_to_go shrinks by exactly the returned count; every return past the setup is target.length - bytes_to_go")
    fn = facts.fn(MH + "copy")
    T = Terms(fn, cap)
    buf = pnames(ck, fn, 1)[0]
    fl, (P, L, N, B, R) = loop_protocol(ck, "C1", fn, T, MH + "copyAvailable", MH + "getBlockContainingLocation", buf, "(the caller would get bytes of another offset or a wrong count)")
    rets = [s for s in fl.find(is_ret) if E.const(s.ev.get("x")) is None]
    ck.need(len(rets) >= 1, "C49: mem_hdr::copy has no computed return")
    for s in rets:
        same(ck, "C1.count", fn, s.line, "returned count", lin_or_broken(T, s.ev["x"], "result"), add(T.lin(T.init[N]), {N: 1}, -1), "(the caller learns how many bytes are valid from this)")

    ck.rule("WR1 LOOP mem_hdr::write(buf): cursors start at buf.offset/.data/.length; writeAvailable(target, offset, len, src) runs only with len != 0 and target = "
            "nodeToRecieve(offset) != null for the current offset; per iteration offset and src advance and len shrinks by exactly the returned count; `return true` after "
            "the loop only with len == 0 or no node")
    fn = facts.fn(MH + "write")
    T = Terms(fn, cap)
    buf = pnames(ck, fn, 1)[0]
    fl, (P, L, N, B, R) = loop_protocol(ck, "WR1", fn, T, MH + "writeAvailable", MH + "nodeToRecieve", buf, "(bytes would be stored at another offset, twice, or not at all)")
    done = [s for s in fl.find(ret_const(1)) if "%sync" in s.env or "%done" in s.env]
    ck.need(len(done) >= 1, "C49: mem_hdr::write has no `return true` after its loop")
    for s in done:
        if s.env.get("%done") in (1, 2):
            ck.ok("WR1.complete", s.where(), "write() returns true with %s" % ("len exhausted" if s.env["%done"] == 1 else "no node available"))
        else:
            ck.violation("WR1.complete", "WR1|mem_hdr::write|returns-true-with-bytes-left", s.where(), "write() can return true while %s is non-zero: the tail of the buffer is dropped" % N, fl.witness(s))

    ck.rule("NR1 TABLE mem_hdr::nodeToRecieve(offset): every node it creates starts at `offset` and is passed to appendNode() before the return; an existing node is returned "
            "only with canAccept(offset) true; nodes.start()'s node is returned only when the splay was empty before the append")
    fn = facts.fn(MH + "nodeToRecieve")
    T = Terms(fn, cap)
    offp = pnames(ck, fn, 1)[0]
    is_new = lambda t: E.strip(t).get("k") == "new" and "mem_node" in E.strip(t).get("t", "")
    fresh = lambda ev: ev.get("e") == "asg" and is_new(ev.get("rhs") or {}) and E.strip(ev["lhs"]).get("k") == "ref"
    appended = lambda ev: ev_call(MH + "appendNode", nargs=1)(ev)
    news = [n for ev in events(fn, lambda e: e.get("e") in ("call", "asg")) for n in E.walk(ev.get("x") or ev.get("rhs") or {}) if is_new(n)]
    ck.need(len({id(n) for n in news}) >= 1, "C49: nodeToRecieve no longer creates nodes")
    for n in {E.key(n): n for n in news}.values():
        ck.need(len(n.get("a", [])) == 1, "C49: new mem_node with %d arguments" % len(n.get("a", [])))
        same(ck, "NR1.fresh-offset", fn, fn.line, "offset of a new node", lin_or_broken(T, n["a"][0], "new node offset"), {offp: 1}, "(writeAvailable stores at the node's end, which must be the write offset)")
    fl = ck.flow(fn, markers={"fresh": fresh, "appended": appended})
    for s in ck.sites(fl, appended, "appendNode()", 1):
        a0 = E.strip(E.strip(s.ev["x"])["a"][0])
        if is_new(a0) or (a0.get("k") == "ref" and s.passed("fresh")):
            ck.ok("NR1.append-fresh", s.where(), "appendNode() receives the node just created")
        else:
            ck.violation("NR1.append-fresh", "NR1|nodeToRecieve|appends-existing", s.where(), "appendNode(%s) inserts a node that was not created here" % E.key(a0), fl.witness(s))
    for s in ck.sites(fl, is_ret, "return", 2):
        x = E.strip(s.ev["x"])
        me = lambda ev, me=s.ev: ev is me
        if x.get("k") == "ref" and x.get("dk") == "local":
            if s.passed("fresh"):
                ck.require_passed("NR1.append-fresh", fl, me, "appended", "return <new node>", why="(the node and the data written into it would be lost)")
            else:
                ca = [c for c in (E.strip(ev["x"]) for ev in events(fn, ev_call(MN + "canAccept", nargs=1))) if E.key(c["o"]) == x["d"]]
                ck.need(len(ca) <= 1, "C49: several %s->canAccept() tests in nodeToRecieve" % x["d"])
                if not ca:
                    ck.violation("NR1.existing", "NR1.existing|mem_hdr::nodeToRecieve|no-canAccept-test", s.where(),
                                 "nodeToRecieve returns the existing node %s without asking %s->canAccept(%s)" % (x["d"], x["d"], offp), fl.witness(s))
                    continue
                same(ck, "NR1.existing", fn, s.line, "canAccept argument", lin_or_broken(T, ca[0]["a"][0], "canAccept argument"), {offp: 1})
                gate(ck, "NR1.existing", T, fl, me, "0", ca[0], "<>", "return <existing node>", why="(data would be put into a node that does not end at the write offset)")
        else:
            ck.need(x.get("k") == "mem" and x.get("m") == "SplayNode::data" and E.strip(x["b"]).get("f") == "Splay::start", "C49: nodeToRecieve returns %s" % E.key(x))
            szc = [E.strip(ev["x"]) for ev in events(fn, ev_call("Splay::size"))]
            ck.need(len(szc) == 1, "C49: nodeToRecieve no longer tests nodes.size() once")
            ck.require_passed("NR1.append-fresh", fl, me, "appended", "return nodes.start()->data")
            gate(ck, "NR1.first-node", T, fl, me, "0", szc[0], "=", "return nodes.start()->data", why="(with other nodes present the first node is not the one just appended)")
    fn = facts.fn(MH + "appendNode")
    ins = the_call(ck, fn, "Splay::insert", 2)
    ck.need(E.key(ins["a"][0]) == pnames(ck, fn, 1)[0] and E.strip(ins["o"]).get("m") == MH + "nodes" and MH + "NodeCompare" in E.mentions(ins["a"][1]),
            "C49: appendNode(n) is no longer nodes.insert(n, NodeCompare): %s" % E.key(ins))

    # ------------------------------------------------------------------ H: contiguity
    ck.rule("H1 LOOP mem_hdr::hasContigousContentRange(range): the cursor starts at range.start and is only ever moved to curr->end() of the node found for it; `return true` "
            "only with that node non-null and cursor >= range.end; the remaining return is !range.size()")
    fn = facts.fn(MH + "hasContigousContentRange")
    T = Terms(fn, cap)
    rng = pnames(ck, fn, 1)[0]
    look = the_call(ck, fn, MH + "getBlockContainingLocation", 1)
    cur = E.strip(look["a"][0])
    ck.need(cur.get("k") == "ref" and cur.get("dk") == "local", "C49: hasContigousContentRange looks up %s, not a local cursor" % E.key(cur))
    cur = cur["d"]
    nodev = [d for d, i in T.init.items() if i is not None and E.key(i) == E.key(look) and T.single(d)]
    ck.need(len(nodev) == 1, "C49: the looked-up node is not kept in one local")
    ck.need(T.init.get(cur) is not None, "C49: the cursor has no initialiser")
    same(ck, "H1.start", fn, fn.line, "initial cursor", lin_or_broken(T, T.init[cur], "cursor"), {rng + ".start": 1}, "(the walk would not start at the first byte asked for)")
    fl = ck.flow(fn)
    moves = ck.sites(fl, lambda ev: ev.get("e") == "asg" and E.key(ev.get("lhs")) == cur, "cursor update", 1)
    for s in moves:
        ck.need(s.ev["op"] == "=", "C49: the cursor is updated with %s" % s.ev["op"])
        same(ck, "H1.step", fn, s.line, "next cursor", lin_or_broken(T, s.ev["rhs"], "cursor"), {field(nodev[0], "offset"): 1, field(nodev[0], "length"): 1},
             "(skipping past the end of the found node would jump over a gap)")
    gate(ck, "H1.covered", T, fl, ret_const(1), "0", nodev[0], "<>", "return true", why="(a range with a missing byte would be reported contiguous)")
    gate(ck, "H1.covered", T, fl, ret_const(1), cur, rng + ".end", ">=", "return true", why="(the walk would stop before the end of the range)")
    others = [ev for ev in events(fn, is_ret) if not ret_const(1)(ev)]
    ck.need(len(others) == 1, "C49: hasContigousContentRange has %d other returns" % len(others))
    x, pol = E.norm(others[0]["x"])
    x = E.strip(x)
    ck.need(not pol and x.get("k") == "call" and x.get("f") == "Range::size" and E.key(x.get("o")) == rng, "C49: the fall-back result of hasContigousContentRange is %s" % E.key(others[0]["x"]))

    # ------------------------------------------------------------------ WHO
    ck.rule("WHO1 selective removal happens only in unlink() called from freeDataUpto(); copyAvailable()/writeAvailable()/nodeToRecieve()/appendNode() are reached only "
            "through copy()/write() (their argument roles are checked above)")
    ck.who_calls("WHO1.removers", facts, MH + "unlink", {MH + "freeDataUpto": "gated by F1"}, min_callers=1)
    mine = [c for c in facts.callers("Splay::remove") if c[0].startswith(MH)]
    ck.need(mine, "C49: no Splay::remove caller inside mem_hdr")
    for c in mine:
        (ck.ok if c[0] == MH + "unlink" else lambda r, w, t: ck.violation(r, "WHO1|Splay::remove|%s" % c[0], w, t))("WHO1.removers", "%s:%d" % (c[1].split("/src/")[-1], c[2]), "%s calls nodes.remove()" % c[0])
    ck.who_calls("WHO1.workers", facts, MH + "copyAvailable", {MH + "copy": "C1"}, min_callers=1)
    ck.who_calls("WHO1.workers", facts, MH + "writeAvailable", {MH + "write": "WR1"}, min_callers=1)
    ck.who_calls("WHO1.workers", facts, MH + "nodeToRecieve", {MH + "write": "WR1"}, min_callers=1)
    ck.who_calls("WHO1.workers", facts, MH + "appendNode", {MH + "nodeToRecieve": "NR1"}, min_callers=1)

    ck.assume("decides the structural clauses above (argument roles, bounded copies, ordering gates, loop bookkeeping), not the byte-for-byte behaviour over all write/free/read histories")
    ck.assume("the splay container (include/splay.h: find/insert/remove/start/finish) and the StoreIOBuffer(length, offset, data) constructor are taken as specified; "
              "integer conversions (size_t/int64_t) inside the linear forms are ignored; memcpy copies exactly its third argument")
    ck.assume("a local with a single definition is compared through that definition (symbolically), assuming its operands are not changed in between")
