"""C21 HTTP request parsing does not depend on input segmentation: commit discipline of Http1::RequestParser (DESIGN.md 5/C21).

Shared helpers for the incremental parsers (also used by C23, C24) live here."""
from .. import expr as E
from ..flow import ev_call, ev_return, ev_assign, ev_exit, ev_any

RP = "Http::One::RequestParser::"
PA = "Http::One::Parser::"
BUF = PA + "buf_"
STAGE = PA + "parsingStage_"
TOK = "Parser::Tokenizer::"


# ------------------------------------------------------------------ helpers shared with C23/C24
def mutates(member):
    """event changes the member object `member` (qualified): assignment, non-const method call on it, or passing it by non-const reference/address"""
    def p(ev):
        e = ev.get("e")
        if e == "asg":
            return E.root_decl(ev.get("lhs")) == ("mem", member)
        if e != "call":
            return False
        x = E.strip(ev.get("x"))
        if not isinstance(x, dict) or x.get("k") != "call":
            return False
        o = E.strip(x.get("o")) if "o" in x else None
        if isinstance(o, dict) and o.get("k") == "mem" and o.get("m") == member and not x.get("cm"):
            return True
        for i, a in enumerate(x.get("a", [])):
            sa = E.strip(a)
            if isinstance(sa, dict) and sa.get("k") == "un" and sa.get("op") == "&" and E.root_decl(sa.get("e")) == ("mem", member):
                return True
            if i in x.get("byref", []) and E.root_decl(sa) == ("mem", member):
                return True
        return False
    return p


def forbid_after(ck, rule, fn, site_pred, marker_pred, name, mname, min_sites=1, why="", **flowkw):
    """path-sensitive: no path reaches a selected site after passing an event satisfying marker_pred"""
    fl = ck.flow(fn, markers={mname: marker_pred}, track_markers=[mname], **flowkw)
    ss = ck.sites(fl, site_pred, name, min_sites)
    for s in ss:
        if s.env.get("#" + mname) == 1:
            ck.violation(rule, "%s|%s|%s|after:%s" % (rule, fn.name, name, mname), s.where(),
                         "%s: '%s' is reachable after %s %s" % (fn.name, s.desc()[:100], mname, why), fl.witness(s))
        else:
            ck.ok(rule, s.where(), "%s: %s is never reached after %s" % (fn.name, s.desc()[:80], mname))
    return ss


def bool_locals(fn):
    return sorted({ev["d"] for b in fn.blocks.values() for ev in b["ev"] if ev.get("e") == "decl" and "bool" in ev.get("t", "")})


def funnel(leaf_of_env):
    """Flow `classify` hook: a bool local defined by a short-circuit expression (`ok = A && B`) takes the value implied by the atoms just evaluated for it"""
    def classify(d, rhs, env):
        t = E.strip(rhs)
        if not isinstance(t, dict) or not (t.get("k") == "bin" and t.get("op") in ("&&", "||") or t.get("k") == "un" and t.get("op") == "!"):
            return None
        r = E.eval3(rhs, leaf_of_env(env))
        return ("c", int(r)) if r is not None else None
    return classify


def require_any(ck, rule, fn, pred, alts, name, **kw):
    """ck.require_any plus (a) unit propagation over the tracked atoms: when clang merges the operands of a short-circuit condition into one
    terminator (temporaries in the condition), an edge of `A || B` with A known false still establishes B (and infeasible edges are pruned);
    (b) bool locals that funnel the tracked atoms (`const bool ok = A && B; if (!ok)`) are constant-propagated"""
    names = {"a%d" % i: a[0] for i, a in enumerate(alts) if a[0] != "P"}

    def env_leaf(env):
        def ev(t):
            for n, m in names.items():
                if m(t):
                    return env.get("@" + n)
            return None
        return ev
    if "tracked" not in kw and bool_locals(fn):
        kw["tracked"], kw["classify"] = bool_locals(fn), funnel(env_leaf)

    def on_edge(b, lab, imp, env, facts):
        cond, val = b["term"]["c"], lab == "T"

        def leaf(force=None):
            def ev(t):
                for n, m in names.items():
                    if m(t):
                        if force and force[0] == n:
                            return force[1]
                        return env.get("@" + n)
                return None
            return ev
        r = E.eval3(cond, leaf())
        if r is not None and r != val:
            return False
        for n in names:
            if ("@" + n) not in env:
                for guess in (True, False):
                    if E.eval3(cond, leaf((n, guess))) == (not val):
                        env["@" + n] = not guess
        return True
    return ck.require_any(rule, fn, pred, alts, name, on_edge=on_edge, **kw)


def local_who(ck, rule, fns, pred, allowed, what, min_found=1):
    """among the loaded functions `fns`, exactly the functions in `allowed` (name -> reason) contain an event satisfying pred"""
    found = {}
    for f in fns:
        for b in f.blocks.values():
            for ev in b["ev"]:
                if pred(ev):
                    found.setdefault(f.name, (f, ev.get("l")))
    ck.need(len(found) >= min_found, "%s: %s: found %d function(s), expected >= %d" % (ck.pid, what, len(found), min_found))
    for n, (f, l) in sorted(found.items()):
        if n in allowed:
            ck.ok(rule, f.where(l), "%s %s (%s)" % (n, what, allowed[n]))
        else:
            ck.violation(rule, "%s|%s|%s" % (rule, what, n), f.where(l), "%s %s but is outside the confirmed set {%s}" % (n, what, ", ".join(sorted(allowed))))
    return found


def on_member(callee, member):
    """matcher: call of `callee` on the member object `member`"""
    return E.m_calls(callee) & E.M(lambda t: E.strip(E.strip(t).get("o")).get("m") == member, "on " + member.split("::")[-1])


def ret_const(pred):
    return lambda ev: ev.get("e") == "ret" and ev.get("x") is not None and E.const(ev["x"]) is not None and pred(E.const(ev["x"]))


def stage_write(enum, name=None):
    """assignment to Parser::parsingStage_ (of enumerator `name`, or any)"""
    if name is None:
        return ev_assign(STAGE, None, ops=None)
    return ev_assign(STAGE, E.m_const(enum[name]))


# ------------------------------------------------------------------ the property
def run(ck):
    facts = ck.facts(["src/http/one/RequestParser.cc", "src/http/one/Parser.cc", "src/servers/Http1Server.cc", "src/client_side.cc"], whole=False)
    st = facts.enum("Http::One::ParseState")
    buf_w = mutates(BUF)

    # ---------------------------------------------------------------- parseRequestFirstLine
    prfl = facts.fn(RP + "parseRequestFirstLine")
    ck.rule("Q1 RequestParser::parseRequestFirstLine: after a failed LF search or a failed field parser (parseMethodField, skipTrailingCrs, parseHttpVersionField, "
            "skipDelimiter, parseUriField, atEnd) every path returns <= 0 before touching buf_; buf_ is written only after all of them were called, with the "
            "LF-tokenizer's remaining(); `return 1` only after that commit; `return <= 0` never after it")
    gates = [(E.m_calls(TOK + "prefix"), False), (E.m_calls(TOK + "skip"), False), (E.m_calls(RP + "parseMethodField"), False),
             (E.m_calls(RP + "skipTrailingCrs"), False), (E.m_calls(RP + "parseHttpVersionField"), False), (E.m_calls(RP + "skipDelimiter"), False),
             (E.m_calls(RP + "parseUriField"), False), (E.m_calls(TOK + "atEnd"), False)]
    for m, v in gates:
        ck.require_response("Q1.failed-gate-no-commit", prfl, m, v, ret_const(lambda c: c <= 0), "return<=0", until=buf_w,
                            why="(a rejected or incomplete request-line would still be consumed/accepted)",
                            tracked=bool_locals(prfl), classify=funnel(lambda env, m=m, v=v: (lambda t: v if m(t) else None)))
    markers = {n: ev_call(RP + n) for n in ("parseMethodField", "skipTrailingCrs", "parseHttpVersionField", "parseUriField")}
    markers["atEnd"] = ev_call(TOK + "atEnd")
    markers["lf-found"] = ev_call(TOK + "skip", arg={0: E.m_const(10)})
    fl = ck.flow(prfl, markers=markers)
    for mk in sorted(markers):
        ck.require_passed("Q1.commit-after-all-fields", fl, buf_w, mk, "buf_ write", why="(the checkpoint would be taken before the whole line was validated)")
    lf = ck.sites(fl, markers["lf-found"], "skip('\\n')", 1)
    lf_tok = {E.key(E.strip(s.ev["x"]).get("o")) for s in lf}
    for s in fl.find(buf_w):
        x = E.strip(s.ev["x"])
        a = E.strip(x["a"][0]) if x.get("f") == "SBuf::operator=" and x.get("a") else {}
        if a.get("k") == "call" and a.get("f") == TOK + "remaining" and {E.key(a.get("o"))} == lf_tok:
            ck.ok("Q1.commit-value", s.where(), "buf_ = %s (the tokenizer that found the LF)" % E.key(a))
        else:
            ck.violation("Q1.commit-value", "Q1.commit-value|parseRequestFirstLine", s.where(), "buf_ is changed by %s, not by assigning the LF tokenizer's remaining()" % s.desc()[:120])
    fl = ck.flow(prfl, markers={"commit": buf_w})
    ck.require_passed("Q1.accept-commits", fl, ret_const(lambda c: c > 0), "commit", "return 1", why="(an accepted request-line would be parsed again as header bytes)")
    forbid_after(ck, "Q1.no-commit-on-failure", prfl, ret_const(lambda c: c <= 0), buf_w, "return<=0", "buf_-write", min_sites=3,
                 why="(need-more/error verdicts must leave the buffer untouched)")
    ck.rule("Q1n `return 0` (need more data) only when no LF was found and the buffer is below Config.maxRequestHeaderSize")
    require_any(ck, "Q1n.need-more-only-without-LF", prfl, ret_const(lambda c: c == 0),
                   [(E.m_calls(TOK + "prefix"), False), (E.m_calls(TOK + "skip"), False)], "return 0", why="(a complete line would be reported as incomplete)")
    ck.require_fact("Q1n.need-more-below-limit", ck.flow(prfl), ret_const(lambda c: c == 0),
                    E.m_cmp("<", on_member("SBuf::length", BUF), E.m_mentions("SquidConfig::maxRequestHeaderSize")), True, "return 0")

    # ---------------------------------------------------------------- who changes parser state
    ck.rule("Q2 WHO (unit-local): among RequestParser methods only skipGarbageLines/parseRequestFirstLine/doParse change buf_ and only doParse writes parsingStage_; "
            "in Parser.cc only clear/grabMimeBlock do")
    rp_fns = [f for f in facts.all_fns() if f.name.startswith(RP)]
    ck.need(len(rp_fns) >= 8, "C21: RequestParser methods not loaded")
    local_who(ck, "Q2.who-changes-buf", rp_fns, buf_w, {RP + "skipGarbageLines": "leading empty lines", RP + "parseRequestFirstLine": "request-line checkpoint",
                                                     RP + "doParse": "buf_ = aBuf at entry"}, "changes buf_", 3)
    local_who(ck, "Q2.who-changes-stage", rp_fns, stage_write(st), {RP + "doParse": "stage machine"}, "writes parsingStage_", 1)
    pa_fns = [f for f in facts.all_fns() if f.name.startswith(PA) and f.file.endswith("Parser.cc")]
    local_who(ck, "Q2.who-changes-buf", pa_fns, buf_w, {PA + "clear": "reset", PA + "grabMimeBlock": "mime block checkpoint"}, "changes buf_", 2)
    local_who(ck, "Q2.who-changes-stage", pa_fns, stage_write(st), {PA + "clear": "reset", PA + "grabMimeBlock": "done"}, "writes parsingStage_", 2)

    # ---------------------------------------------------------------- doParse
    dp = facts.fn(RP + "doParse")
    ck.rule("Q3 RequestParser::doParse: each stage step runs only under its own parsingStage_ test and after buf_ = aBuf; NONE->FIRST only with a non-empty buffer after "
            "skipGarbageLines(); FIRST->MIME only with retcode > 0; ->DONE only with retcode < 0; no other stage write; non-false results are !needsMoreData()")
    res = ck.m_result_of(dp, RP + "parseRequestFirstLine")
    # `x == K` is normalised to the atom `x` (false) when K is 0
    stage_is = lambda n: (E.m_cmp("==", E.m_is_mem(STAGE), E.m_const(st[n])), True) if st[n] else (E.m_is_mem(STAGE), False)
    entry_w = ev_call("SBuf::operator=", obj=E.m_is_mem(BUF), arg={0: E.M(lambda t: E.strip(t).get("dk") == "param", "parameter")})
    fl = ck.flow(dp, markers={"buf_=aBuf": entry_w, "skipGarbageLines": ev_call(RP + "skipGarbageLines")})
    for callee, stg in ((RP + "skipGarbageLines", "HTTP_PARSE_NONE"), (RP + "parseRequestFirstLine", "HTTP_PARSE_FIRST"), (PA + "grabMimeBlock", "HTTP_PARSE_MIME")):
        ck.require_fact("Q3.step-under-own-stage", fl, ev_call(callee), stage_is(stg)[0], stage_is(stg)[1], callee.split("::")[-1] + "()",
                        why="(a stage step would be repeated or skipped depending on how input was split)")
        ck.require_passed("Q3.parse-from-callers-buffer", fl, ev_call(callee), "buf_=aBuf", callee.split("::")[-1] + "()")
    ck.require_fact("Q3.first-needs-data", fl, stage_write(st, "HTTP_PARSE_FIRST"), on_member("SBuf::isEmpty", BUF), False, "parsingStage_=FIRST")
    ck.require_passed("Q3.first-needs-data", fl, stage_write(st, "HTTP_PARSE_FIRST"), "skipGarbageLines", "parsingStage_=FIRST")
    ck.require_fact("Q3.mime-needs-success", fl, stage_write(st, "HTTP_PARSE_MIME"), E.m_cmp("<", E.m_const(0), res), True, "parsingStage_=MIME",
                    why="(the header stage would start although the request-line is incomplete or bad)")
    ck.require_fact("Q3.done-needs-error", fl, stage_write(st, "HTTP_PARSE_DONE"), E.m_cmp("<", res, E.m_const(0)), True, "parsingStage_=DONE",
                    why="(need-more would be turned into a final verdict)")
    known = {st[n] for n in ("HTTP_PARSE_FIRST", "HTTP_PARSE_MIME", "HTTP_PARSE_DONE")}
    for s in ck.sites(fl, stage_write(st), "parsingStage_ write", 3):
        if s.ev.get("op") in ("=",) and E.const(s.ev.get("rhs")) in known:
            ck.ok("Q3.stage-values", s.where(), "stage write %s" % s.desc())
        else:
            ck.violation("Q3.stage-values", "Q3.stage-values|doParse|%s" % E.key(s.ev.get("rhs")), s.where(), "doParse writes parsingStage_ with %s" % s.desc())
    ck.require_response("Q3.error-returns-false", dp, E.m_cmp("<", res, E.m_const(0)), True, ev_return(E.m_const(0)), "return false", term_kinds=("IfStmt",))
    for s in ck.sites(fl, ev_return(), "return", 3):
        x = s.ev.get("x")
        t, pol = E.norm(x, True)
        if E.const(x) == 0 or (pol is False and E.m_calls(PA + "needsMoreData")(t)):
            ck.ok("Q3.result", s.where(), "doParse returns %s" % E.key(x))
        else:
            ck.violation("Q3.result", "Q3.result|doParse", s.where(), "doParse returns %s, neither false nor !needsMoreData()" % E.key(x))

    # ---------------------------------------------------------------- skipGarbageLines
    sg = facts.fn(RP + "skipGarbageLines")
    ck.rule("Q4 skipGarbageLines: buf_ changes only by consume(1), and only when buf_[0]==LF, or buf_.length()>1 and buf_[1]==LF were the last evaluations "
            "(a lone CR at the end of the buffer is not consumed)")
    at = lambda i, c: E.m_cmp("==", on_member("SBuf::operator[]", BUF) & E.M(lambda t: E.const(E.strip(t)["a"][0]) == i, "[%d]" % i), E.m_const(c))
    longer = E.m_cmp("<", E.m_const(1), on_member("SBuf::length", BUF))
    require_any(ck, "Q4.lf-or-crlf", sg, buf_w, [(at(0, 10), True), (at(1, 10), True)], "buf_ change", why="(a byte that is not part of an empty line would be dropped)")
    require_any(ck, "Q4.lookahead-present", sg, buf_w, [(at(0, 10), True), (longer, True)], "buf_ change", why="(buf_[1] would be examined/consumed without being there)")
    for s in ck.flow(sg).find(buf_w):
        x = E.strip(s.ev["x"])
        if x.get("f") == "SBuf::consume" and len(x.get("a", [])) == 1 and E.const(x["a"][0]) == 1:
            ck.ok("Q4.one-byte", s.where(), "consume(1)")
        else:
            ck.violation("Q4.one-byte", "Q4.one-byte|skipGarbageLines", s.where(), "skipGarbageLines changes buf_ by %s" % s.desc()[:100])
    ck.rule("Q5 LOOKAHEAD: skipGarbageLines returns void, so a stop caused by a failed `buf_.length() > 1` lookahead (lone CR: not enough bytes to decide) looks "
            "final to doParse; unless skipGarbageLines has no such exit, doParse's commit to HTTP_PARSE_FIRST must itself be guarded by buf_.length() > 1 or buf_[0] != CR")
    fl = ck.flow(sg, track_atoms={"lookahead": longer})
    ck.need(ck.trigger_edges(sg, longer, False), "C21: lookahead test in skipGarbageLines vanished")
    short = [s for s in ck.sites(fl, ev_exit(("ret", "fall")), "exit", 1) if s.tracked("lookahead") is False]
    relaxed_m = E.m_is_mem("relaxed_header_parser")
    len1 = E.M(lambda t: E.strip(t).get("k") == "bin" and E.strip(t).get("op") == "==" and "SBuf::length" in E.mentions(E.strip(t)["l"]) and E.const(E.strip(t)["r"]) == 1, "buf_.length() == 1")
    # in strict mode skipGarbageLines must have no lookahead-dependent exit at all, otherwise the `relaxed false` alternative below is not available
    fl_strict = ck.flow(sg, assume=[(relaxed_m, False)], track_atoms={"lookahead": longer})
    strict_short = [s for s in fl_strict.find(ev_exit(("ret", "fall"))) if s.tracked("lookahead") is False]
    sg_call = ev_call(sg.name)

    def forget_buffer_tests(ev, env, fs):
        # skipGarbageLines() consumes from buf_: what was tested about buf_ before the call says nothing about the buffer it leaves behind
        if sg_call(ev):
            for k in ("@longer", "@cr", "@len1"):
                env.pop(k, None)
            for f in [f for f in fs if f[0] == "A" and "SBuf::isEmpty" in str(f[1])]:
                fs.discard(f)
    ck.sites(ck.flow(dp), sg_call, "skipGarbageLines()", 1)
    fl2 = ck.flow(dp, track_atoms={"longer": longer, "cr": at(0, 13), "relaxed": relaxed_m, "len1": len1}, on_event=forget_buffer_tests)
    for s in ck.sites(fl2, stage_write(st, "HTTP_PARSE_FIRST"), "parsingStage_=FIRST", 1):
        not_lone_cr = (s.tracked("longer") is True or s.tracked("cr") is False or
                       (s.tracked("relaxed") is False and not strict_short) or
                       (s.tracked("len1") is False and s.has(E.m_calls("SBuf::isEmpty"), False)))
        if not short or not_lone_cr:
            ck.ok("Q5.short-lookahead-is-final", s.where(), "HTTP_PARSE_FIRST is committed only when the garbage-line decision did not depend on missing bytes")
        else:
            ck.violation("Q5.short-lookahead-is-final", "Q5|doParse|HTTP_PARSE_FIRST|after-short-lookahead", s.where(),
                         "skipGarbageLines can return with a lone CR pending (its buf_.length() > 1 test failed, %s) and cannot say so; doParse then sets HTTP_PARSE_FIRST "
                         "on the non-empty buffer, skipGarbageLines never runs again, and the CR of a split leading CRLF becomes the request-line" % short[0].where(),
                         fl.witness(short[0]))

    # ---------------------------------------------------------------- grabMimeBlock
    gm = facts.fn(PA + "grabMimeBlock")
    ck.rule("Q6 Parser::grabMimeBlock: buf_ changes only by consume(n) with n the non-zero headersEnd(buf_) result; parsingStage_ = DONE only with a terminator found, "
            "a final size verdict, or no mime block expected; `return true` only after DONE; a return without DONE (need more) leaves buf_ untouched")
    he = ck.m_result_of(gm, "headersEnd")
    fl = ck.flow(gm)
    for s in ck.require_fact("Q6.consume-needs-terminator", fl, buf_w, he, True, "buf_ change", min_sites=1, why="(header bytes would be consumed before the block is complete)"):
        x = E.strip(s.ev["x"])
        if x.get("f") == "SBuf::consume" and len(x.get("a", [])) == 1 and he(x["a"][0]):
            ck.ok("Q6.consume-amount", s.where(), "consume(%s)" % E.key(x["a"][0]))
        else:
            ck.violation("Q6.consume-amount", "Q6.consume-amount|grabMimeBlock", s.where(), "grabMimeBlock changes buf_ by %s, not consume(<headersEnd result>)" % s.desc()[:100])
    hes = [s for s in fl.find(ev_call("headersEnd"))]
    ck.need(len(hes) == 1 and E.m_is_mem(BUF)(E.strip(hes[0].ev["x"])["a"][0]), "C21: headersEnd(buf_, ...) call not found in grabMimeBlock")
    too_big = E.m_cmp("<", E.m_mentions("SBuf::length", BUF), E.m_is_ref("limit"))
    done = stage_write(st, "HTTP_PARSE_DONE")
    require_any(ck, "Q6.done-is-final", gm, done, [(he, True), (too_big, False), (ck.m_closure(gm, "Http::One::Parser::hackExpectsMime_"), False)], "parsingStage_=DONE",
                   min_sites=1, why="(an incomplete header block would get a final verdict)")
    for s in ck.sites(fl, stage_write(st), "parsingStage_ write", 1):
        if not done(s.ev):
            ck.violation("Q6.stage-values", "Q6.stage-values|grabMimeBlock", s.where(), "grabMimeBlock writes parsingStage_ with %s" % s.desc())
    fl = ck.flow(gm, markers={"done": done})
    ck.require_passed("Q6.true-means-done", fl, ret_const(lambda c: c != 0), "done", "return true")
    fl = ck.flow(gm, markers={"done": done, "bufw": buf_w}, track_markers=["done", "bufw"])
    for s in ck.sites(fl, ev_exit(("ret", "fall")), "exit", 3):
        if s.env.get("#done") != 1 and s.env.get("#bufw") == 1:
            ck.violation("Q6.need-more-keeps-buffer", "Q6.need-more-keeps-buffer|grabMimeBlock", s.where(), "grabMimeBlock changes buf_ but leaves the parser needing more data", fl.witness(s))
        else:
            ck.ok("Q6.need-more-keeps-buffer", s.where(), "exit with done=%s buf-changed=%s" % (s.env.get("#done", 0), s.env.get("#bufw", 0)))

    # ---------------------------------------------------------------- callers keep the parser across increments
    ck.rule("Q7 Http1::Server::parseOneRequest replaces parser_ only when it is null or !needsMoreData(); ConnStateData::parseHttpRequest parses the whole inBuf, "
            "stores remaining() back before returning, and inspects/aborts only with needsMoreData() false")
    por = facts.fn("Http::One::Server::parseOneRequest")
    par = "Http::One::Server::parser_"
    require_any(ck, "Q7.keep-parser-while-incomplete", por, mutates(par), [(E.m_is_mem(par), False), (E.m_calls(PA + "needsMoreData"), False)], "parser_ change",
                   why="(the parsing stage reached on earlier bytes would be forgotten)")
    phr = facts.fn("ConnStateData::parseHttpRequest")
    parse_call = ev_call(RP + "parse")
    sync = ev_call("SBuf::operator=", obj=E.m_is_mem("Server::inBuf"), arg={0: E.m_calls(PA + "remaining")})
    fl = ck.flow(phr, markers={"parse": parse_call, "sync": sync})
    for s in ck.sites(fl, parse_call, "hp->parse()", 1):
        if E.m_is_mem("Server::inBuf")(E.strip(s.ev["x"])["a"][0]):
            ck.ok("Q7.parse-whole-buffer", s.where(), "parse(inBuf)")
        else:
            ck.violation("Q7.parse-whole-buffer", "Q7.parse-whole-buffer|parseHttpRequest", s.where(), "parser is fed %s, not the accumulated inBuf" % E.key(E.strip(s.ev["x"])["a"][0]))
    ck.require_passed("Q7.sync-after-parse", fl, ev_exit(("ret", "fall")), "sync", "return", min_sites=2, why="(consumed bytes would be parsed again or lost)")
    ck.require_passed("Q7.sync-after-parse", fl, sync, "parse", "inBuf = remaining()")
    ck.require_fact("Q7.no-verdict-while-incomplete", fl, ev_any(ev_call("ConnStateData::abortRequestParsing"), ev_call("ConnStateData::consumeInput"), ev_call(RP + "method")),
                    E.m_calls(PA + "needsMoreData"), False, "abortRequestParsing|consumeInput|method()", min_sites=3)
    ck.require_response("Q7.incomplete-returns-null", phr, E.m_calls(PA + "needsMoreData"), True, ev_return(E.M(lambda t: E.strip(t).get("k") == "null" or E.const(t) == 0, "null")),
                        "return nullptr")
    ck.assume("equality of outcomes across split points is not decided; headersEnd(), Tokenizer primitives and the field parsers' grammar are not analysed (C22)")
    ck.assume("non-const method calls and by-reference passing are taken as the only ways to change the SBuf member buf_")
