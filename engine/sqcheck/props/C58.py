"""C58 IPC messages round-trip and malformed messages are rejected safely: pack/unpack agreement (DESIGN.md 5/C58)."""
import glob
import os

from .. import expr as E
from .. import units
from ..flow import ev_exit, ev_call

PAIR = {"setType": "checkType", "putPod": "getPod", "putString": "getString", "putInt": "getInt", "putFixed": "getFixed",
        "putFd": "getFd", "putRaw": "getRaw"}
GETS = set(PAIR.values())
TM = "Ipc::TypedMsgHdr::"


def norm_type(t):
    t = (t or "?").replace("const ", "").replace("struct ", "").replace("class ", "").strip()
    while t.endswith("&") or t.endswith(" "):
        t = t[:-1]
    return t


def operand_type(a):
    a = E.strip(a)
    if not isinstance(a, dict):
        return "?"
    if a.get("k") == "un" and a.get("op") == "&":
        return norm_type(E.strip(a.get("e")).get("t", "?")) + "*"
    return norm_type(a.get("t", "?"))


def msg_ops(fn, msgname):
    """source-ordered list of operations a function performs on its TypedMsgHdr parameter"""
    out = []
    seq = 0
    for bid in sorted(fn.blocks, reverse=True):
        for ev in fn.blocks[bid]["ev"]:
            seq += 1
            trees = []
            if ev.get("e") == "call":
                trees = [ev["x"]]
            elif ev.get("e") == "asg" and ev.get("rhs") is not None:
                trees = [ev["rhs"]] if E.strip(ev["rhs"]).get("k") == "ctor" else []
            elif ev.get("e") == "decl" and ev.get("init") is not None:
                trees = [ev["init"]] if E.strip(ev["init"]).get("k") == "ctor" else []
            for t in trees:
                x = E.strip(t)
                if not isinstance(x, dict):
                    continue
                f = x.get("f", "")
                o = E.strip(x.get("o")) if "o" in x else None
                args = x.get("a", [])
                on_msg = isinstance(o, dict) and o.get("k") == "ref" and o.get("d") == msgname
                if on_msg and f.startswith(TM):
                    op = f[len(TM):]
                    if op in ("setType", "checkType"):
                        out.append((ev["l"], seq, E.key(x), ("type", E.const(args[0]) if args else None)))
                    elif op in ("putPod", "getPod"):
                        out.append((ev["l"], seq, E.key(x), ("pod", operand_type(args[0]) if args else "?")))
                    elif op in ("putFixed", "getFixed"):
                        sz = args[1] if len(args) > 1 else None
                        out.append((ev["l"], seq, E.key(x), ("fixed", E.const(sz) if E.const(sz) is not None else E.key(sz))))
                    elif op in ("putString", "getString"):
                        out.append((ev["l"], seq, E.key(x), ("string", None)))
                    elif op in ("putInt", "getInt"):
                        out.append((ev["l"], seq, E.key(x), ("pod", "int")))    # putInt(n) is putPod(int) on the wire (checked in X2)
                    elif op in ("putFd", "getFd"):
                        out.append((ev["l"], seq, E.key(x), ("fd", None)))
                    elif op in ("putRaw", "getRaw"):
                        out.append((ev["l"], seq, E.key(x), ("raw", E.key(args[1]) if len(args) > 1 else None)))
                    elif op in ("hasFd", "hasMoreData", "rawType", "type"):
                        pass
                    else:
                        out.append((ev["l"], seq, E.key(x), ("other:" + op, None)))
                elif any(isinstance(E.strip(a), dict) and E.strip(a).get("k") == "ref" and E.strip(a).get("d") == msgname for a in args):
                    last = f.split("::")[-1]
                    cls = "::".join(f.split("::")[:-1])
                    if last in ("pack", "unpack"):
                        out.append((ev["l"], seq, E.key(x), ("nested", cls)))
                    elif x.get("k") == "ctor":
                        out.append((ev["l"], seq, E.key(x), ("nested", cls)))
                    elif last in ("packValue", "unpackValue"):
                        out.append((ev["l"], seq, E.key(x), ("nested", cls)))
                    else:
                        out.append((ev["l"], seq, E.key(x), ("helper:" + last.replace("Unpack", "Pack").replace("unpack", "pack"), None)))
    out.sort(key=lambda r: (r[0], r[1]))
    # de-duplicate the same (line, op) seen through two events (asg + call of one ctor expression)
    res = []
    lastk = None
    for l, s, k, op in out:
        if res and res[-1][0] == l and res[-1][1] == op and lastk == k:
            continue
        res.append((l, op))
        lastk = k
    return res


def run(ck):
    files = sorted(set(glob.glob(units.REPO + "/src/ipc/*.cc") + glob.glob(units.REPO + "/src/mgr/*.cc") + glob.glob(units.REPO + "/src/snmp/*.cc")
                       + [units.REPO + "/src/DiskIO/DiskDaemon/DiskdAction.cc", units.REPO + "/src/SBufStatsAction.cc",
                          units.REPO + "/src/DiskIO/IpcIo/IpcIoFile.cc", units.REPO + "/src/CollapsedForwarding.cc"]))
    built = set(units.all_units())
    files = [f for f in files if f in built]
    facts = ck.facts(files)

    def msg_param(fn):
        for p in fn.params:
            if "TypedMsgHdr" in p.get("t", ""):
                return p["d"]
        return None

    packs = {}
    unpacks = {}
    for fn in facts.all_fns():
        if fn.tmpl == 1:
            continue
        mp = msg_param(fn)
        if not mp:
            continue
        last = fn.name.split("::")[-1]
        cls = "::".join(fn.name.split("::")[:-1])
        if last == "pack":
            packs.setdefault(cls, []).append(fn)
        elif last in ("unpack", "unpackValue"):
            unpacks.setdefault(cls, []).append(fn)
        elif last == cls.split("::")[-1]:
            unpacks.setdefault(cls, []).append(fn)   # unpacking constructor

    ck.rule("X1 SIBLING: for every class with pack(TypedMsgHdr&), the source-ordered operations on the message in pack() and in its unpack()/unpacking "
            "constructor correspond one-to-one: same message type tag, same sequence of pod (same operand type) / string / int / fixed (same size) / fd / "
            "raw operations and nested member pack/unpack of the same class")
    ck.need(len(packs) >= 20, "C58: only %d pack() functions found" % len(packs))
    pairs = 0
    for cls in sorted(packs):
        pf = packs[cls][0]
        if cls not in unpacks:
            # abstract/base helper without its own unpack: nothing to compare, but say so
            ck.ok("X1.sibling", pf.where(), "%s::pack has no unpack counterpart in the analysed units (write-only or unpacked by a factory)" % cls, nontrivial=False)
            continue
        for uf in unpacks[cls]:
            pairs += 1
            a = msg_ops(pf, msg_param(pf))
            b = msg_ops(uf, msg_param(uf))
            sa = [op for _, op in a]
            sb = [op for _, op in b]
            # accepted idioms (each confirmed by reading):
            # (1) a caller-chosen (non-constant) type tag is set by pack() and was already dispatched on before the unpacking constructor runs
            if sa and sa[0] == ("type", None) and (not sb or sb[0][0] != "type"):
                a, sa = a[1:], sa[1:]
            # (2) Mgr::QueryParam: pack() writes its own type tag first; the reader reads the tag, creates the param, then calls unpackValue()
            if uf.name.endswith("::unpackValue") and sa and sa[0][0] == "pod" and sa[0][1].endswith("QueryParam::Type"):
                a, sa = a[1:], sa[1:]
            nb, nsb = [], []
            i = 0
            while i < len(sb):
                if i + 1 < len(sb) and sb[i][0] == "pod" and sb[i][1].endswith("QueryParam::Type") and sb[i + 1] == ("nested", "Mgr::QueryParam"):
                    i += 1
                    continue
                nb.append(b[i]); nsb.append(sb[i]); i += 1
            b, sb = nb, nsb
            if sa == sb:
                ck.ok("X1.sibling", pf.where(), "%s: pack and %s agree on %d message operations %s" % (cls, uf.name.split("::")[-1], len(sa), [o[0] for o in sa]))
            else:
                i = 0
                while i < min(len(sa), len(sb)) and sa[i] == sb[i]:
                    i += 1
                wa = ("%s at line %d" % (sa[i], a[i][0])) if i < len(sa) else "<end>"
                wb = ("%s at line %d" % (sb[i], b[i][0])) if i < len(sb) else "<end>"
                ck.violation("X1.sibling", "X1|%s|%s" % (cls, uf.name.split("::")[-1]), uf.where(),
                             "%s: pack() and %s() disagree at operation #%d: pack does %s, unpack does %s" % (cls, uf.name.split("::")[-1], i + 1, wa, wb))
    ck.need(pairs >= 18, "C58: only %d pack/unpack pairs compared" % pairs)

    ck.rule("X2 TypedMsgHdr::getRaw/putRaw: memcpy only past the size Must(); getString: Must(length >= 0) and Must(length <= maxSize) dominate getRaw(buf, length); "
            "checkType throws on mismatch; getFixed/putFixed delegate to getRaw/putRaw")
    tm = ck.facts(["src/ipc/TypedMsgHdr.cc"])
    gr = tm.fn(TM + "getRaw")
    fl = ck.flow(gr)
    # the guard is Must(rawSize <= data.size - offset): normalised as ((data.size - offset) < rawSize) == False
    guard = E.M(lambda t: E.strip(t).get("k") == "bin" and E.strip(t).get("op") == "<" and "rawSize" in E.mentions(E.strip(t)["r"]) and
                {"Ipc::TypedMsgHdr::offset", "Ipc::TypedMsgHdr::DataBuffer::size"} <= E.mentions(E.strip(t)["l"]), "(data.size - offset) < rawSize")
    ck.require_fact("X2.bounded-copy", fl, ev_call("memcpy"), guard, False, "memcpy in getRaw", why="(read past the received data)")
    pr = tm.fn(TM + "putRaw")
    pguard = E.M(lambda t: E.strip(t).get("k") == "bin" and E.strip(t).get("op") == "<" and "rawSize" in E.mentions(E.strip(t)["r"]) and
                 {"Ipc::TypedMsgHdr::DataBuffer::size"} <= E.mentions(E.strip(t)["l"]), "(sizeof(data.raw) - data.size) < rawSize")
    ck.require_fact("X2.bounded-copy", ck.flow(pr), ev_call("memcpy"), pguard, False, "memcpy in putRaw", why="(write past the message buffer)")
    # generic: any read at data.raw + offset anywhere in TypedMsgHdr must be covered by (data.size - offset) >= n for the n bytes it takes
    def at_offset(t):
        t = E.strip(t)
        return isinstance(t, dict) and t.get("k") == "bin" and t.get("op") == "+" and \
            {"Ipc::TypedMsgHdr::DataBuffer::raw", "Ipc::TypedMsgHdr::offset"} <= E.mentions(t) and not any(n.get("k") == "call" for n in E.walk(t))
    nreads = 0
    for fn_ in tm.all_fns(lambda f: f.name.startswith(TM)):
        fl_ = None
        for b_ in fn_.blocks.values():
            for ev in b_["ev"]:
                if ev.get("e") != "call":
                    continue
                x_ = E.strip(ev["x"])
                src = [a for a in x_.get("a", []) if at_offset(a)]
                if not src:
                    continue
                nreads += 1
                others = [a for a in x_.get("a", []) if not at_offset(a) and E.strip(a).get("k") not in ("un",)]
                fl_ = fl_ or ck.flow(fn_)
                for s_ in fl_.sites:
                    if s_.ev is not ev:
                        continue
                    lens = {E.key(a) for a in others}
                    cover = E.M(lambda t, lens=lens: E.strip(t).get("k") == "bin" and E.strip(t).get("op") == "<" and E.key(E.strip(t)["r"]) in lens and
                                {"Ipc::TypedMsgHdr::offset", "Ipc::TypedMsgHdr::DataBuffer::size"} <= E.mentions(E.strip(t)["l"]), "(data.size - offset) < n")
                    if s_.has(cover, False):
                        ck.ok("X2.read-within-received", s_.where(), "%s reads at data.raw + offset only within the received bytes" % fn_.name)
                    else:
                        ck.violation("X2.read-within-received", "X2|%s|read-at-offset" % fn_.name, s_.where(),
                                     "%s reads from data.raw + offset (%s) without the (n <= data.size - offset) check: a message whose length prefix exceeds the bytes "
                                     "actually received is read past its end" % (fn_.name, fl_.fn and E.key(x_)[:100]), fl_.witness(s_))
    ck.need(nreads >= 1, "C58: no read at data.raw + offset found in TypedMsgHdr.cc")
    gs = tm.fn(TM + "getString")
    fl = ck.flow(gs)
    if not fl.find(ev_call(TM + "getRaw")):
        # getString reads the buffer itself: the generic X2.read-within-received rule above is what decides it; the destination-size
        # rule below is specific to the getRaw(&buf, length) form
        ck.ok("X2.string-bounds", gs.where(), "getString does not copy through a fixed local buffer (decided by X2.read-within-received)", nontrivial=False)
        return
    ck.require_fact("X2.string-bounds", fl, ev_call(TM + "getRaw"), E.m_cmp("<", E.m_is_ref("length"), E.m_const(0)), False, "getRaw in getString")
    bufsz = [ev.get("arr") for b_ in gs.blocks.values() for ev in b_["ev"] if ev.get("e") == "decl" and ev.get("d") == "buf"]
    ck.need(bufsz and bufsz[0], "C58: getString no longer reads into a fixed local array 'buf'")
    fits = E.M(lambda t: E.strip(t).get("k") == "bin" and E.strip(t).get("op") == "<" and E.m_is_ref("length")(E.strip(t)["r"]) and
               E.const(E.strip(t)["l"]) is not None and E.const(E.strip(t)["l"]) <= bufsz[0], "(K < length) with K <= sizeof(buf)=%s" % bufsz[0])
    ck.require_fact("X2.string-bounds", fl, ev_call(TM + "getRaw"), fits, False, "getRaw in getString",
                    why="(a hostile length would overflow the stack buffer)")
    for s_ in fl.find(ev_call(TM + "getRaw")):
        a = E.strip(s_.ev["x"])["a"]
        if E.root_decl(E.strip(a[0]).get("e") if E.strip(a[0]).get("k") == "un" else a[0])[1] == "buf" and E.m_is_ref("length")(a[1]):
            ck.ok("X2.string-bounds", s_.where(), "getRaw(&buf, length) copies exactly the checked length into buf")
        else:
            ck.violation("X2.string-bounds", "X2|getString|getRaw-args", s_.where(), "getString no longer calls getRaw(&buf, length) with the checked length")
    ctf = tm.fn(TM + "checkType")
    fl = ck.flow(ctf)
    from ..flow import ev_exit
    ck.require_fact("X2.type-checked", fl, ev_exit(), E.M(lambda t: E.strip(t).get("k") == "bin" and E.strip(t).get("op") == "==" and "destType" in E.mentions(t) and "Ipc::TypedMsgHdr::rawType" in E.mentions(t), "rawType() == destType"), True, "normal return")
    gi = tm.fn(TM + "getInt")
    pi = tm.fn(TM + "putInt")
    gok = any(ev_call(TM + "getPod")(ev) and operand_type(E.strip(ev["x"])["a"][0]) == "int" for b_ in gi.blocks.values() for ev in b_["ev"])
    pok = any(ev_call(TM + "putPod")(ev) and operand_type(E.strip(ev["x"])["a"][0]) == "int" for b_ in pi.blocks.values() for ev in b_["ev"])
    if gok and pok:
        ck.ok("X2.int-is-pod", gi.where(), "getInt()/putInt() are getPod<int>/putPod<int>")
    else:
        ck.violation("X2.int-is-pod", "X2|int-is-pod", gi.where(), "getInt()/putInt() no longer move exactly one int pod")
    ck.rule("X3 a message object re-armed for reading starts at part 0: TypedMsgHdr::prepForReading() (Ipc::Port reuses one TypedMsgHdr for every datagram) "
            "reaches its end only after `offset = 0`, set there or in the clear() it calls on every path; a stale read offset makes getRaw()'s "
            "`data.size - offset` wrap and the next message is decoded from the middle (or past the end) of the buffer")
    rewind = lambda ev: ev.get("e") == "asg" and ev.get("op") == "=" and E.m_is_mem("Ipc::TypedMsgHdr::offset")(ev.get("lhs")) and E.const(ev.get("rhs")) == 0
    cl = tm.fn(TM + "clear")
    cfl = ck.flow(cl, markers={"rewound": rewind})
    clear_rewinds = all(st.passed("rewound") for st in cfl.find(ev_exit()))
    pfr = tm.fn(TM + "prepForReading")
    pfl = ck.flow(pfr, markers={"rewound": (lambda ev: rewind(ev) or (clear_rewinds and ev_call(TM + "clear")(ev)))})
    ck.require_passed("X3.reader-rearmed-at-offset-0", pfl, ev_exit(), "rewound", "end of prepForReading()", why="(the previous message's read offset survives into the next message)")

    ck.rule("X4 SIBLING putString/getString: putString() sends the counted psize() bytes of the String, so getString() must build the String from the counted "
            "bytes it received: the out-parameter is only ever modified by a call that is also given the received length (assign(buf, length) and the like). "
            "A c-string assignment truncates a value with an embedded NUL although both ends counted it")
    gs = tm.fn(TM + "getString")
    ck.need(len(gs.params) == 1, "C58: TypedMsgHdr::getString signature changed")
    OUT = gs.params[0]["d"]
    ldefs = [n for n, ds in ck.local_defs(gs).items() if n.lower().startswith("len")]
    lens = set(ldefs) | {"length"}
    nmod = 0
    for b in gs.blocks.values():
        for ev in b["ev"]:
            x = E.strip(ev.get("x")) if ev.get("e") == "call" else None
            if not (isinstance(x, dict) and "o" in x and E.m_is_ref(OUT)(x["o"]) and not x.get("cm")):
                continue
            nmod += 1
            counted = any(E.strip(a).get("k") == "ref" and E.strip(a).get("d") in lens for a in x.get("a", []))
            if counted or x.get("f", "").split("::")[-1] in ("clean", "clear"):
                ck.ok("X4.string-counted-both-ways", gs.where(ev["l"]), "getString: %s(..., length)" % x.get("f"))
            else:
                ck.violation("X4.string-counted-both-ways", "X4|getString|%s" % x.get("f", "?").split("::")[-1], gs.where(ev["l"]), "TypedMsgHdr::getString builds the result with %s, "
                             "which is not given the received length: a string part with an embedded NUL octet is truncated although putString() sent psize() bytes" % E.key(x)[:80])
    ck.need(nmod >= 1, "C58: getString no longer assigns its out-parameter through a member call")
    ps = tm.fn(TM + "putString")
    sizes = [E.strip(ev["x"]) for b in ps.blocks.values() for ev in b["ev"] if ev.get("e") == "call" and E.strip(ev["x"]).get("f", "").split("::")[-1] in ("psize", "size", "length")]
    ck.need(sizes, "C58: putString no longer sends a counted length")

    ck.assume("value round-trip follows from operation agreement plus memcpy semantics; it is not separately decided")
