"""C32 HTML quoting neutralises markup: escape table and html_quote() copy loop (DESIGN.md 5/C32)."""
import re

from .. import expr as E
from ..flow import ev_call, ev_assign, ev_return

META = {60: "<", 62: ">", 34: '"', 38: "&", 39: "'"}      # the markup metacharacters of the property statement
ENTITY = re.compile(r"^&([A-Za-z][A-Za-z0-9]*|#[0-9]+);$")
ARR_IDX = "std::array::operator[]"


def table_store(ev):
    """(key tree, value tree) if the event is `<array>[key] = value` through SBuf::operator=, else None"""
    if ev.get("e") != "call":
        return None
    x = E.strip(ev.get("x"))
    if not isinstance(x, dict) or x.get("f") != "SBuf::operator=" or len(x.get("a", [])) != 1:
        return None
    o = E.strip(x.get("o"))
    if not isinstance(o, dict) or o.get("f") != ARR_IDX or len(o.get("a", [])) != 1:
        return None
    return o["a"][0], x["a"][0]


def mult_of(t, what):
    """M if t is `strlen(<what>) * M` (either operand order), else None"""
    t = E.strip(t)
    if not isinstance(t, dict) or t.get("k") != "bin" or t.get("op") != "*":
        return None
    for a, b in ((t.get("l"), t.get("r")), (t.get("r"), t.get("l"))):
        sa = E.strip(a)
        if isinstance(sa, dict) and sa.get("k") == "call" and sa.get("f") == "strlen" and E.m_is_ref(what)(sa["a"][0]) and E.const(b) is not None:
            return E.const(b)
    return None


def known_empty(site, objpred, empty):
    """the SBuf selected by objpred is known empty (empty=True) / non-empty (False): isEmpty(), length() truthiness or 0 < length()"""
    on = E.M(lambda t: objpred(E.strip(t)["o"]), "on the entry")
    return (site.has(E.m_calls("SBuf::isEmpty") & on, empty) or site.has(E.m_calls("SBuf::length") & on, not empty)
            or site.has(E.m_cmp("<", E.m_const(0), E.m_calls("SBuf::length") & on), not empty))


def run(ck):
    facts = ck.facts(["src/html/Quoting.cc"], whole=False)
    esc = facts.fn("EscapeSequences")
    hq = facts.fn("html_quote")

    # ------------------------------------------------------------------ the escape table
    ck.rule("Q1 EscapeSequences(): every return that hands out a freshly built table has passed a store table[K] = \"literal\" for each of "
            "< > \" & ' (the early return is taken only when the sentinel entry is already non-empty); each literal is a well-formed, "
            "pairwise distinct entity reference; the generated numeric form is \"&#%d;\" of a loop index bounded by < 256")
    lits = {}       # key -> literal
    fmts = []
    for b in esc.blocks.values():
        for ev in b["ev"]:
            ts = table_store(ev)
            if ts is None:
                continue
            k, v = E.const(ts[0]), E.strip(ts[1])
            if k is not None and isinstance(v, dict) and v.get("k") == "str":
                lits.setdefault(k, []).append((v["v"], ev["l"]))
            else:
                fmts.append((ts[0], v, ev))
    ck.need(len(lits) >= 4, "C32: fewer than 4 literal escape-table stores found in EscapeSequences()")
    markers = {"K%d" % k: (lambda ev, k=k: (table_store(ev) is not None and E.const(table_store(ev)[0]) == k
                                             and E.strip(table_store(ev)[1]).get("k") == "str")) for k in META}
    fl = ck.flow(esc, markers=markers)
    sentinel = E.M(lambda o: E.strip(o).get("f") == ARR_IDX and E.const(E.strip(o)["a"][0]) in lits, "a literal-keyed table entry")
    rets = ck.sites(fl, ev_return(), "return", 2)
    for s in rets:
        if known_empty(s, sentinel, False):
            ck.ok("Q1.meta-escaped", s.where(), "EscapeSequences: early return only with a literal-keyed entry already non-empty (table built before)")
            continue
        for k, ch in sorted(META.items()):
            if s.passed("K%d" % k):
                ck.ok("Q1.meta-escaped", s.where(), "EscapeSequences: the built table has an entity for %r (%s)" % (ch, lits[k][0][0]))
            else:
                ck.violation("Q1.meta-escaped", "Q1|EscapeSequences|no-entity-for|%d" % k, s.where(),
                             "EscapeSequences: the table can be returned without an escape sequence for %r (it would be copied raw by html_quote)" % ch, fl.witness(s))
    seen = {}
    for k, vs in sorted(lits.items()):
        for v, line in vs:
            m = ENTITY.match(v)
            good = bool(m) and (not m.group(1).startswith("#") or int(m.group(1)[1:]) == k)
            if good and seen.get(v, k) == k:
                ck.ok("Q1.entity-shape", esc.where(line), "escape for %d is the entity reference %s" % (k, v))
            else:
                ck.violation("Q1.entity-shape", "Q1|EscapeSequences|entity-shape|%d" % k, esc.where(line),
                             "escape sequence %r for character %d is not a well-formed entity reference distinct from the others" % (v, k))
            seen.setdefault(v, k)
    maxlen = max(len(v) for vs in lits.values() for v, _ in vs)
    ck.need(len(fmts) >= 1, "C32: the generated (numeric) escape store vanished")
    for kt, v, ev in fmts:
        ok = False
        bound = None
        if isinstance(v, dict) and v.get("f") == "SBuf::Printf" and len(v.get("a", [])) == 2 and E.m_str("&#%d;")(v["a"][0]):
            idx, arg = E.strip(kt), E.strip(v["a"][1])
            if idx.get("k") == "ref" and arg.get("k") == "ref" and idx["d"] == arg["d"]:
                site = [s for s in fl.sites if s.ev is ev]
                for f in (site[0].facts if site else ()):
                    if f[0] == "A" and f[2] is True:
                        t = fl.trees[f[1]]
                        if E.m_cmp("<", E.m_is_ref(idx["d"]), E.M(lambda r: E.const(r) is not None, "const"))(t):
                            bound = E.const(E.strip(t)["r"])
                ok = bound is not None and bound >= 1
        if ok:
            ck.ok("Q1.numeric-form", esc.where(ev["l"]), "generated escapes are \"&#%%d;\" of the table index, index < %d (<= %d bytes)" % (bound, 3 + len(str(bound - 1))))
            maxlen = max(maxlen, 3 + len(str(bound - 1)))
        else:
            ck.violation("Q1.numeric-form", "Q1|EscapeSequences|numeric-form", esc.where(ev["l"]),
                         "a non-literal escape-table store is not `table[i] = SBuf().Printf(\"&#%%d;\", i)` with i bounded by a constant: %s" % E.key(ev["x"])[:120])

    # ------------------------------------------------------------------ the copy loop
    ck.rule("Q2 html_quote(): the raw byte store *dst++ = ch happens only with escape.isEmpty() established true, where escape is "
            "EscapeSequences()[ch] for that same ch; WHO: the table local is defined by EscapeSequences() only")
    defs = ck.local_defs(hq)
    raw = lambda ev: (ev.get("e") == "asg" and ev.get("op") == "=" and E.strip(ev["lhs"]).get("k") == "un" and E.strip(ev["lhs"]).get("op") == "*"
                      and E.strip(ev.get("rhs") or {}).get("k") == "ref" and E.strip(ev["rhs"]).get("dk") == "local")
    hfl = ck.flow(hq)
    stores = ck.sites(hfl, raw, "*dst = <local>", 1)
    for s in stores:
        chname = E.strip(s.ev["rhs"])["d"]

        def entry_of_ch(o, chname=chname):
            o = E.strip(o)
            if o.get("k") != "ref":
                return False
            ds = defs.get(o["d"], [])
            if len(ds) != 1:
                return False
            d = E.strip(ds[0])
            if d.get("f") != ARR_IDX or not E.m_is_ref(chname)(d["a"][0]):
                return False
            tab = E.strip(d["o"])
            tds = defs.get(tab.get("d"), [])
            return tab.get("k") == "ref" and len(tds) == 1 and E.m_calls("EscapeSequences")(tds[0])
        if known_empty(s, E.M(entry_of_ch, "EscapeSequences()[%s]" % chname), True):
            ck.ok("Q2.raw-only-if-no-escape", s.where(), "html_quote: raw store of %s only when EscapeSequences()[%s].isEmpty()" % (chname, chname))
        else:
            ck.violation("Q2.raw-only-if-no-escape", "Q2|html_quote|raw-store|needs:isEmpty(EscapeSequences()[ch])=T", s.where(),
                         "html_quote: '%s' is reachable without EscapeSequences()[%s].isEmpty() being true on every path (facts: %s)"
                         % (s.desc(), chname, ", ".join(s.fact_keys())[:200]), hfl.witness(s))

    ck.rule("Q2b WHO-writes the quoted output: inside html_quote the output cursor is handed to nothing but the escape copy (SBuf::copy of the table entry); apart from "
            "that the only stores through it are the guarded raw byte (Q2) and the constant terminator. Any other call receiving the cursor (memcpy/strcpy of source "
            "bytes, a 'pass multi-byte sequences through' shortcut) bypasses the escape table")
    curs = sorted({n["d"] for st_ in stores for n in E.walk(st_.ev["lhs"]) if n.get("k") == "ref" and n.get("dk") == "local"})
    ck.need(len(curs) == 1, "C32: html_quote's output cursor could not be identified: %s" % curs)
    dstv = curs[0]
    nwr = 0
    for b in hq.blocks.values():
        for ev in b["ev"]:
            if ev.get("e") == "call":
                x = E.strip(ev["x"])
                args = x.get("a", [])
                if any(dstv in E.mentions(a) for a in args):
                    nwr += 1
                    if x.get("f") == "SBuf::copy" and E.m_is_ref(dstv)(args[0]):
                        ck.ok("Q2b.output-writers", hq.where(ev["l"]), "escape.copy(dst, n)")
                    else:
                        ck.violation("Q2b.output-writers", "Q2b|html_quote|%s" % x.get("f", "?"), hq.where(ev["l"]),
                                     "html_quote passes its output cursor to %s: bytes reach the quoted output without going through the escape table" % E.key(x)[:120])
            elif ev.get("e") == "asg" and E.strip(ev["lhs"]).get("k") in ("un", "idx") and dstv in E.mentions(ev["lhs"]):
                nwr += 1
                r = ev.get("rhs")
                if raw(ev) or E.const(r) == 0:
                    ck.ok("Q2b.output-writers", hq.where(ev["l"]), "store through the cursor is the guarded raw byte or the terminator")
                else:
                    ck.violation("Q2b.output-writers", "Q2b|html_quote|store", hq.where(ev["l"]), "html_quote stores %s through its output cursor" % E.key(r)[:100])
    ck.need(nwr >= 3, "C32: expected the escape copy, the raw store and the terminator in html_quote, found %d output writes" % nwr)

    ck.rule("Q3 GINT html_quote(): the output cursor starts at buf only after buf = xcalloc(bufsize,1) with bufsize = strlen(string)*M+1 or with "
            "strlen(string)*M > bufsize established false; M >= longest escape sequence; escape.copy(dst, n) has n >= longest sequence and the cursor advances by that escape's length()")
    Ms = set()
    ck.need(len(hq.params) == 1, "C32: html_quote no longer takes exactly one parameter")
    string = hq.params[0]["d"]
    cur = {n["d"] for n in E.walk(stores[0].ev["lhs"]) if n.get("k") == "ref" and n.get("dk") == "local"}
    dst = cur.pop() if len(cur) == 1 else None                      # the output cursor = the local the raw store writes through
    bufs = {E.strip(s.ev["x"]).get("d") for s in hfl.find(ev_return())}
    ck.need(len(bufs) == 1 and None not in bufs and dst, "C32: html_quote no longer returns its one static buffer")
    buf = bufs.pop()
    sizes = {E.strip(E.strip(ev["rhs"])["a"][0]).get("d") for b in hq.blocks.values() for ev in b["ev"]
             if ev_assign(buf, E.M(lambda t: E.strip(t).get("f") == "xcalloc", "xcalloc"), ops=("=",))(ev)}
    ck.need(len(sizes) == 1 and None not in sizes, "C32: buf is no longer allocated by xcalloc(<size variable>, n)")
    bufsize = sizes.pop()
    bs_asg = [ev for b in hq.blocks.values() for ev in b["ev"] if ev_assign(bufsize, ops=("=",))(ev)]
    ck.need(len(bs_asg) == 1, "C32: expected exactly one assignment of bufsize in html_quote")
    rhs = E.strip(bs_asg[0]["rhs"])
    m_alloc = None
    if rhs.get("k") == "bin" and rhs.get("op") == "+" and E.const(rhs.get("r")) is not None and E.const(rhs["r"]) >= 1:
        m_alloc = mult_of(rhs.get("l"), string)
    guard = E.M(lambda t: E.strip(t).get("k") == "bin" and E.strip(t)["op"] == "<" and E.m_is_ref(bufsize)(E.strip(t)["l"])
                and mult_of(E.strip(t)["r"], string) is not None, "(bufsize < strlen(string)*M)")
    for b in hq.blocks.values():
        c = (b.get("term") or {}).get("c")
        if c is not None:
            for leaf in E.leaves(c):
                if guard(leaf):
                    Ms.add(mult_of(E.strip(leaf)["r"], string))
    ck.need(m_alloc is not None, "C32: bufsize is no longer assigned strlen(string)*M + k (k>=1)")
    ck.need(len(Ms) == 1, "C32: the re-allocation guard strlen(string)*M > bufsize vanished")
    m_guard = Ms.pop()
    for nm, mv in (("allocation", m_alloc), ("re-allocation guard", m_guard)):
        if mv >= maxlen:
            ck.ok("Q3.multiplier", hq.where(bs_asg[0]["l"]), "html_quote: %s multiplier %d >= longest escape sequence %d" % (nm, mv, maxlen))
        else:
            ck.violation("Q3.multiplier", "Q3|html_quote|multiplier|%s" % nm.replace(" ", "-"), hq.where(bs_asg[0]["l"]),
                         "html_quote: %s multiplier %d < longest escape sequence %d (the output buffer can overflow)" % (nm, mv, maxlen))
    alloc = ev_assign(buf, E.M(lambda t: E.strip(t).get("f") == "xcalloc" and E.m_is_ref(bufsize)(E.strip(t)["a"][0]) and E.const(E.strip(t)["a"][1]) >= 1,
                                 "xcalloc(bufsize, n>=1)"), ops=("=",))
    ck.require_any("Q3.buffer-sized", hq, ev_assign(dst, E.m_is_ref(buf), ops=("=",)),
                   [(guard, False), ("P", "buf = xcalloc(bufsize,1)", alloc)], "dst = buf", why="(the cursor would start on a buffer not sized for this input)")
    ck.require_any("Q3.buffer-sized", hq, ev_assign(dst, E.m_is_ref(buf), ops=("=",)),
                   [(E.m_is_ref(buf), True), ("P", "buf = xcalloc(bufsize,1)", alloc)], "dst = buf", why="(the cursor would start on a null buffer)")
    afl = ck.flow(hq, markers={"size": ev_assign(bufsize, ops=("=",))})
    ck.require_passed("Q3.buffer-sized", afl, alloc, "size", "buf = xcalloc(bufsize,1)")
    copies = ck.sites(hfl, ev_call("SBuf::copy"), "escape.copy()", 1)
    for s in copies:
        x = E.strip(s.ev["x"])
        n = E.const(x["a"][1])
        if E.m_is_ref(dst)(x["a"][0]) and n is not None and n >= maxlen:
            ck.ok("Q3.copy-len", s.where(), "html_quote: escape.copy(dst, %d) cannot truncate a sequence (longest %d)" % (n, maxlen))
        else:
            ck.violation("Q3.copy-len", "Q3|html_quote|copy-len", s.where(), "html_quote: %s may truncate an escape sequence (longest %d)" % (s.desc(), maxlen))
        obj = E.key(x["o"])
        adv = [a for a in hfl.find(ev_assign(dst, ops=("+=",))) if a.bid == s.bid]
        if len(adv) == 1 and E.m_calls("SBuf::length")(adv[0].ev["rhs"]) and E.key(E.strip(adv[0].ev["rhs"])["o"]) == obj:
            ck.ok("Q3.copy-len", adv[0].where(), "html_quote: cursor advances by %s.length() of the copied sequence" % obj)
        else:
            ck.violation("Q3.copy-len", "Q3|html_quote|advance", s.where(), "html_quote: after %s the cursor is not advanced by %s.length()" % (s.desc(), obj))
    ck.rule("Q4 html_quote(): the quoted string is terminated (and returned) only after the scan has reached the source's NUL: the last evaluation of "
            "`*src` on every path to the terminator store is false. Any other way out of the copy loop (a capacity or length test) returns a silently "
            "truncated quotation")
    term = lambda ev: (ev.get("e") == "asg" and ev.get("op") == "=" and E.strip(ev["lhs"]).get("k") == "un" and dstv in E.mentions(ev["lhs"])
                       and E.const(ev.get("rhs")) == 0)
    at_nul = E.M(lambda t: E.strip(t).get("k") == "un" and E.strip(t).get("op") == "*" and E.strip(E.strip(t).get("e") or {}).get("k") == "ref"
                 and dstv not in E.mentions(t), "*src")
    ck.require_any("Q4.scan-complete", hq, term, [(at_nul, False)], "*dst = '\\0'", why="(the copy loop can end before the end of the input)")

    ck.assume("reversibility (decoding returns the original) is not decided beyond distinct, well-formed entities; SBuf::Printf/copy semantics are trusted")
