"""C10 Cache hits reproduce one complete stored response (DESIGN.md section 5, C10): hit-validation gates, narrow."""
from .. import expr as E
from ..flow import ev_call, ev_return, ev_assign, ev_any, ev_exit
from .C11 import ev_ebit_set, case_value

CRC = "clientReplyContext::"
SE = "StoreEntry::"
SC = "store_client::"
SERVE = {CRC + "sendMoreData", CRC + "processExpired", CRC + "processConditional"}
STORE_OK = 0


def nonzero_ret(ev):
    return ev.get("e") == "ret" and E.const(ev.get("x")) != 0


def normal_exit(ev):
    return ev.get("e") == "exit" and ev.get("kind") in ("ret", "fall")


def run(ck):
    facts = ck.facts(["src/client_side_reply.cc", "src/store.cc", "src/store_client.cc", "src/store/SwapMetaIn.cc", "src/MemStore.cc", "src/fs/rock/RockIoState.cc"], whole=True)

    # ------------------------------------------------------------------ H: the hit path refuses unusable entries
    ck.rule("H1 clientReplyContext::cacheHit: sendMoreData/processExpired/processConditional only with result.flags.error F, e->mayStartHitting() T, ENTRY_ABORTED F and "
            "request storeId().cmp(e->mem_obj->storeId()) == 0 established; RESPONSE(each of those failing -> processMiss())")
    hit = facts.fn(CRC + "cacheHit")
    fl = ck.flow(hit)
    gates = [("swapin-error", E.m_is_mem("StoreIOBuffer::(anonymous struct)::error") | (E.m_mentions("StoreIOBuffer::flags") & E.M(lambda t: E.key(t).endswith(".error"), ".error")), False,
              "(bytes of a failed swap-in would be sent)"),
             ("unshareable", E.m_calls(SE + "mayStartHitting"), True, "(a private/unshareable entry would be served as a hit)"),
             ("aborted", E.m_mentions("ENTRY_ABORTED"), False, "(an aborted, truncated entry would be served)"),
             ("other-url", E.m_calls("SBuf::cmp") & E.m_mentions("HttpRequest::storeId", "MemObject::storeId"), False, "(the entry of another URL would be served)")]
    for name, m, v, why in gates:
        ck.require_fact("H1.hit-gates", fl, ev_call(SERVE), m, v, "serve", min_sites=4, why=why)
        ck.require_response("H1.refused-hit-is-a-miss", hit, m, not v, ev_call(CRC + "processMiss"), "processMiss()", term_kinds=("IfStmt",))

    ck.rule("H2 identifyFoundObject (offline_mode cut): doGetMoreData() with the found entry kept only with e->validToSend() T (else forgetHit() first); StoreEntry::validToSend: non-zero only with "
            "RELEASE_REQUEST F and ENTRY_ABORTED F, and the final `return 1` only with mem_obj->inmem_lo F (a front-trimmed memory copy without disk backing is not a hit)")
    ifo = facts.fn(CRC + "identifyFoundObject")
    valid = E.m_calls(SE + "validToSend")
    ck.need(ck.trigger_edges(ifo, valid, False), "C10: identifyFoundObject no longer tests validToSend()")
    entry_local = E.M(lambda t: E.strip(t).get("k") == "ref" and E.strip(t).get("dk") == "local", "local entry pointer")
    ck.require_any("H2.only-valid-entries-hit", ifo, ev_call(CRC + "doGetMoreData"), [(valid, True), (entry_local, False), ("P", "forgetHit()", ev_call(CRC + "forgetHit"))], "doGetMoreData()",
                   min_sites=4, assume=[(E.m_is_mem("offline"), False)], why="(an entry marked for release/aborted would be served as a hit)")
    vts = facts.fn(SE + "validToSend")
    vfl = ck.flow(vts)
    for flag in ("RELEASE_REQUEST", "ENTRY_ABORTED"):
        ck.require_fact("H2.validToSend", vfl, nonzero_ret, E.m_mentions(flag), False, "return <non-zero>", min_sites=3, why="(an entry being evicted/replaced or aborted would be a hit)")
    ck.require_any("H2.validToSend", vts, nonzero_ret, [(E.m_is_mem("MemObject::inmem_lo"), False), (E.m_calls(SE + "hasDisk"), True), (E.m_calls(SE + "swappingOut"), True)], "return <non-zero>", min_sites=3,
                   why="(a memory copy whose beginning was trimmed would be served)")

    ck.rule("H3 truncation is sticky: StoreEntry::complete RESPONSE(!ENTRY_BAD_LENGTH && !validLength() -> lengthWentBad()); lengthWentBad sets ENTRY_BAD_LENGTH and calls releaseRequest(); "
            "completeTruncated passes lengthWentBad() before complete(); checkCachable returns non-zero only with ENTRY_BAD_LENGTH F and RELEASE_REQUEST F; "
            "WHO-writes(store_status = STORE_OK) = {complete, abort (after EBIT_SET ENTRY_ABORTED), MemStore::anchorEntry/copyFromShm, Rock::SwapDir::anchorEntry, UFSSwapDir::addDiskRestore}")
    comp = facts.fn(SE + "complete")
    ck.require_response("H3.bad-length-detected", comp, E.m_calls(SE + "validLength"), False, ev_call(SE + "lengthWentBad"), "lengthWentBad()", term_kinds=("IfStmt",),
                        why="(an entry shorter/longer than its Content-Length would stay cachable)")
    lwb = facts.fn(SE + "lengthWentBad")
    lfl = ck.flow(lwb, markers={"marked": ev_ebit_set("ENTRY_BAD_LENGTH"), "released": ev_call(SE + "releaseRequest")})
    for mk in ("marked", "released"):
        ck.require_passed("H3.bad-length-releases", lfl, normal_exit, mk, "return")
    ct = facts.fn(SE + "completeTruncated")
    ck.require_passed("H3.bad-length-releases", ck.flow(ct, markers={"bad": ev_call(SE + "lengthWentBad")}), ev_call(SE + "complete"), "bad", "complete()")
    cc = facts.fn(SE + "checkCachable")
    cfl = ck.flow(cc)
    for flag in ("ENTRY_BAD_LENGTH", "RELEASE_REQUEST"):
        ck.require_fact("H3.bad-length-not-swapped-out", cfl, nonzero_ret, E.m_mentions(flag), False, "return <non-zero>", min_sites=2, why="(a truncated entry would be written to disk as complete)")
    ck.who_writes("H3.who-completes", facts, SE + "store_status", {
        SE + "complete": "after the validLength() check (H3)", SE + "abort": "with ENTRY_ABORTED set first (checked below)", "MemStore::anchorEntry": "anchor.complete() (M1)",
        "MemStore::copyFromShm": "gated by M1", "Rock::SwapDir::anchorEntry": "anchor.complete() ? STORE_OK : STORE_PENDING", "Fs::Ufs::UFSSwapDir::addDiskRestore": "index rebuild (C16/C57)",
        SE + "StoreEntry": "constructor: STORE_PENDING", "storeCreatePureEntry": "STORE_PENDING"}, min_writers=5)
    ab = facts.fn(SE + "abort")
    ck.require_passed("H3.who-completes", ck.flow(ab, markers={"aborted": ev_ebit_set("ENTRY_ABORTED")}), ev_assign(SE + "store_status", E.m_const(STORE_OK)), "aborted", "store_status = STORE_OK")

    ck.rule("H4 clientReplyContext::replyStatus: `return STREAM_COMPLETE` only with ENTRY_ABORTED F, ENTRY_BAD_LENGTH F and (expected body size unknown or http->gotEnough() T)")
    rs = facts.fn(CRC + "replyStatus")
    complete_ret = lambda ev: ev.get("e") == "ret" and "STREAM_COMPLETE" in E.mentions(ev.get("x"))
    rfl = ck.flow(rs)
    for flag in ("ENTRY_ABORTED", "ENTRY_BAD_LENGTH"):
        ck.require_fact("H4.truncated-not-complete", rfl, complete_ret, E.m_mentions(flag), False, "return STREAM_COMPLETE", why="(a truncated body would end the response as if complete)")
    size_unknown = E.m_cmp("<", ck.m_result_of(rs, "HttpReply::bodySize"), E.m_const(0))   # `expectedBodySize >= 0` is the atom (expectedBodySize < 0) == F
    ck.require_any("H4.truncated-not-complete", rs, complete_ret, [(E.m_calls("ClientHttpRequest::gotEnough"), True), (size_unknown, True)], "return STREAM_COMPLETE",
                   why="(fewer body bytes than announced would be reported as a complete stream)")

    # ------------------------------------------------------------------ D: disk hits are validated against the entry they were opened for
    ck.rule("D1 WHO(Store::UnpackHitSwapMeta) = {store_client::readHeader}; readHeader reaches maybeWriteFromDiskToMemory()/handleBodyFromDisk() only with object_ok T, len < 0 F and after "
            "UnpackHitSwapMeta(); UnpackHitSwapMeta: from case STORE_META_URL every path to the end passes CheckSwapMetaUrl(), from case STORE_META_KEY_MD5 CheckSwapMetaKey(); "
            "CheckSwapMetaKey returns normally only with KEY_PRIVATE T or memcmp(meta, entry.key) == 0; CheckSwapMetaUrl only with a terminated URL and (no known URIs or strcasecmp == 0)")
    rh = facts.fn(SC + "readHeader")
    use = ev_any(ev_call(SC + "maybeWriteFromDiskToMemory"), ev_call(SC + "handleBodyFromDisk"))
    hfl = ck.flow(rh, markers={"validated": ev_call("Store::UnpackHitSwapMeta")})
    ck.require_passed("D1.metadata-validated-first", hfl, use, "validated", "use of disk bytes", min_sites=2, why="(bytes of a disk file would be used before its key/URL were compared)")
    ck.require_fact("D1.metadata-validated-first", hfl, use, E.m_is_mem(SC + "object_ok"), True, "use of disk bytes", min_sites=2)
    lens = [p["d"] for p in rh.params if "ssize_t" in p["t"] or p["t"] == "long"]
    ck.need(len(lens) == 1, "C10: store_client::readHeader lost its length parameter")
    ck.require_fact("D1.metadata-validated-first", hfl, use, E.m_cmp("<", E.m_is_ref(lens[0]), E.m_const(0)), False, "use of disk bytes", min_sites=2, why="(a failed disk read would be parsed)")
    ck.who_calls("D1.who-validates-disk-hits", facts, "Store::UnpackHitSwapMeta", {SC + "readHeader": "the disk-hit metadata reader"}, kinds=("call", "ref"))
    uh = facts.fn("Store::UnpackHitSwapMeta")
    sw = [b for b in uh.blocks.values() if b.get("term", {}).get("k") == "SwitchStmt"]
    ck.need(len(sw) == 1 and "Store::SwapMetaView::type" in E.mentions(sw[0]["term"]["c"]), "C10: UnpackHitSwapMeta no longer switches on meta.type")
    for enumerator, checker in (("Store::STORE_META_URL", "Store::CheckSwapMetaUrl"), ("Store::STORE_META_KEY_MD5", "Store::CheckSwapMetaKey")):
        k = case_value(ck, uh, enumerator)
        start = [b["id"] for b in uh.blocks.values() if "case" in b and b["case"].get("v") == k]
        ufl = ck.flow(uh, start=start[0], switch_assume=lambda cond, k=k: k if "Store::SwapMetaView::type" in E.mentions(cond) else None, markers={"checked": ev_call(checker)})
        ck.require_passed("D1.swap-meta-checked", ufl, normal_exit, "checked", "end of UnpackHitSwapMeta() from case %s" % enumerator,
                          why="(a swapped-in file would not be compared with the entry's %s)" % ("URL" if "URL" in enumerator else "key"))
    key = facts.fn("Store::CheckSwapMetaKey")
    ck.require_any("D1.key-mismatch-throws", key, normal_exit, [(E.m_mentions("KEY_PRIVATE"), True), (E.m_calls("memcmp") & E.m_mentions("hash_link::key", "Store::SwapMetaView::rawValue"), False)], "normal return",
                   why="(the file of another cache key would be accepted)")
    url = facts.fn("Store::CheckSwapMetaUrl")
    ck.require_any("D1.url-mismatch-throws", url, normal_exit, [(E.m_calls("MemObject::hasUris"), False), (E.m_calls("strcasecmp") & E.m_mentions("MemObject::urlXXX"), False)], "normal return",
                   why="(the file of another URL would be accepted)")
    ck.require_fact("D1.url-mismatch-throws", ck.flow(url), normal_exit, E.m_calls("memrchr"), True, "normal return", min_sites=2)

    ck.rule("D2 store_client::readBody: handleBodyFromDisk() only with lastIoResult < 0 F and lastIoResult non-zero, RESPONSE(lastIoResult < 0 -> fail()); fail() is the only writer of "
            "object_ok=false (the ctor sets true); finishCallback sets result.flags.error = object_ok ? 0 : 1 and hands out parsed bytes only with object_ok T")
    rb = facts.fn(SC + "readBody")
    io = [p["d"] for p in rb.params if "ssize_t" in p["t"] or p["t"] == "const long"]
    ck.need(len(io) == 1, "C10: store_client::readBody lost its I/O result parameter")
    bfl = ck.flow(rb)
    ck.require_fact("D2.failed-read-not-used", bfl, ev_call(SC + "handleBodyFromDisk"), E.m_cmp("<", E.m_is_ref(io[0]), E.m_const(0)), False, "handleBodyFromDisk()")
    ck.require_fact("D2.failed-read-not-used", bfl, ev_call(SC + "handleBodyFromDisk"), E.m_is_ref(io[0]), True, "handleBodyFromDisk()", why="(an empty read would be taken for data)")
    ck.require_response("D2.failed-read-fails", rb, E.m_cmp("<", E.m_is_ref(io[0]), E.m_const(0)), True, ev_call(SC + "fail"), "fail()")
    ck.who_writes("D2.failure-is-sticky", facts, SC + "object_ok", {SC + "store_client": "constructor: true", SC + "fail": "the only failure path"}, min_writers=2)
    for (n, f, l, op, cv) in facts.writers(SC + "object_ok"):
        if n == SC + "fail" and cv != 0:
            ck.violation("D2.failure-is-sticky", "D2|fail|writes-nonfalse", "src/store_client.cc:%d" % l, "store_client::fail writes object_ok with %s" % cv)
    fc = facts.fn(SC + "finishCallback")
    ffl = ck.flow(fc)
    ok = E.m_is_mem(SC + "object_ok")
    for s in ck.sites(ffl, ev_assign("StoreIOBuffer::(anonymous struct)::error"), "result.flags.error =", 1):
        r = E.strip(s.ev.get("rhs"))
        if r.get("k") == "cond" and ok(r.get("c")) and E.const(r.get("t")) == 0 and E.const(r.get("f")) not in (0, None):
            ck.ok("D2.error-flag-reported", s.where(), "finishCallback: result.flags.error = object_ok ? 0 : 1")
        else:
            ck.violation("D2.error-flag-reported", "D2|finishCallback|error-flag", s.where(), "finishCallback sets result.flags.error = %s (expected object_ok ? 0 : 1)" % E.key(r))
    ck.require_fact("D2.error-flag-reported", ffl, ev_call("Store::ParsingBuffer::packBack"), ok, True, "parsingBuffer->packBack()", why="(bytes of a failed read would be handed to the client side)")

    # ------------------------------------------------------------------ M: shared memory cache
    ck.rule("M1 MemStore::copyFromShm: store_status = STORE_OK only with wasEof T (anchor.complete() and last slice), anchor.writerHalted F and hasParsedReplyHeader() T; "
            "MemStore::get returns the entry only with copyFromShm() T; anchorEntry sets STORE_OK only with anchor.complete() T")
    cfs = facts.fn("MemStore::copyFromShm")
    mfl = ck.flow(cfs)
    done = ev_assign(SE + "store_status", E.m_const(STORE_OK))
    eof = [n for n, ds in ck.local_defs(cfs).items() if ds and all("Ipc::StoreMapAnchor::complete" in E.mentions(d) for d in ds)]
    ck.need(len(eof) == 1, "C10: copyFromShm no longer keeps one eof local defined from anchor.complete() (%s)" % eof)
    ck.require_fact("M1.complete-only-at-eof", mfl, done, E.m_is_ref(eof[0]), True, "store_status = STORE_OK", why="(a partially written shared-memory entry would become complete)")
    ck.require_fact("M1.complete-only-at-eof", mfl, done, E.m_is_mem("Ipc::StoreMapAnchor::writerHalted"), False, "store_status = STORE_OK", why="(an entry whose writer aborted would become complete)")
    ck.require_fact("M1.complete-only-at-eof", mfl, done, E.m_calls(SE + "hasParsedReplyHeader"), True, "store_status = STORE_OK")
    get = facts.fn("MemStore::get")
    ck.require_fact("M1.failed-load-not-returned", ck.flow(get), lambda ev: ev.get("e") == "ret" and E.strip(ev.get("x") or {}).get("k") == "ref", E.m_calls("MemStore::copyFromShm"), True,
                    "return e", why="(a half-loaded entry would be returned as a hit)")
    ae = facts.fn("MemStore::anchorEntry")
    ck.require_fact("M1.complete-only-at-eof", ck.flow(ae), done, E.m_calls("Ipc::StoreMapAnchor::complete"), True, "store_status = STORE_OK")

    # ------------------------------------------------------------------ K: rock reads
    ck.rule("K1 Rock::IoState::handleReadCompletion: callReaderBack(buf, <not -1>) only with errFlag zero (DISK_OK), rlen < 0 F and expectedReply(request.id) T; "
            "Rock::IoState::read_: theFile->read() only with sidCurrent < 0 F, RESPONSE(sidCurrent < 0 -> callReaderBack())")
    hrc = facts.fn("Rock::IoState::handleReadCompletion")
    good_cb = lambda ev: ev_call("Rock::IoState::callReaderBack")(ev) and E.const(E.strip(ev["x"])["a"][1]) != -1
    kfl = ck.flow(hrc)
    err = [p["d"] for p in hrc.params if p["t"].replace("const ", "") == "int"]
    ck.need(len(err) == 2, "C10: Rock::IoState::handleReadCompletion signature changed")
    ck.require_fact("K1.rock-read-errors-reported", kfl, good_cb, E.m_is_ref(err[1]), False, "callReaderBack(buf, rlen)", why="(a failed disk read would deliver bytes)")
    ck.require_fact("K1.rock-read-errors-reported", kfl, good_cb, E.m_cmp("<", E.m_is_ref(err[0]), E.m_const(0)), False, "callReaderBack(buf, rlen)")
    ck.require_fact("K1.rock-read-errors-reported", kfl, good_cb, E.m_calls("Rock::IoState::expectedReply"), True, "callReaderBack(buf, rlen)", why="(the reply to an older read request would be delivered)")
    rd = facts.fn("Rock::IoState::read_")
    no_slice = E.m_cmp("<", E.m_is_mem("Rock::IoState::sidCurrent"), E.m_const(0))
    ck.require_fact("K1.rock-read-needs-slice", ck.flow(rd), ev_call({"DiskFile::read"}), no_slice, False, "theFile->read()", why="(a read beyond the entry's last slice would be issued)")
    # a later assignment to sidCurrent makes the tested fact stale: the obligation then rests on the next test of sidCurrent < 0 (itself a trigger edge)
    ck.require_response("K1.rock-read-needs-slice", rd, no_slice, True, ev_any(ev_call("Rock::IoState::callReaderBack"), ev_assign("Rock::IoState::sidCurrent")),
                        "callReaderBack() (or a new sidCurrent, tested again)", term_kinds=("IfStmt",),
                        why="(a read past the last slice would neither be issued nor answered)")
    ck.rule("K1b Rock::IoState::read_: theFile->read() is issued only with the requested offset inside the current slice, i.e. with "
            "coreOff >= objOffset + currentReadableSlice().size established false *after* the last change of objOffset/sidCurrent (the slot walk must run until the "
            "slice containing coreOff is reached, however many slots a read skips: a reader that continues mid-chain after an aborted hit skips several)")
    pcore = rd.params[2]["d"] if len(rd.params) > 2 else "?"
    within = E.m_cmp("<", E.m_is_ref(pcore), E.M(lambda t: "Rock::IoState::objOffset" in E.mentions(t) and "Rock::IoState::currentReadableSlice" in E.mentions(t), "objOffset + slice size"))
    ck.need(ck.trigger_edges(rd, within, True), "C10: Rock::IoState::read_ no longer compares coreOff with objOffset + slice size")
    kfl2 = ck.flow(rd, prune_fields=True, track_atoms={"slice": no_slice, "within": within})
    for st in ck.sites(kfl2, ev_call({"DiskFile::read"}), "theFile->read()", 1):
        if st.tracked("within") is True:
            ck.ok("K1b.rock-read-in-current-slice", st.where(), "read_: the slot walk ended with coreOff inside the current slice on this path")
        else:
            ck.violation("K1b.rock-read-in-current-slice", "K1b|Rock::IoState::read_|read-outside-current-slice", st.where(),
                         "Rock::IoState::read_ can issue theFile->read() on a path where `coreOff >= objOffset + currentReadableSlice().size` was not established false "
                         "after the last slot step (bytes of a different slot would be read and served as this part of the object)", kfl2.witness(st))
    # ------------------------------------------------------------------ U: a failed ufs-family disk write must end the swapout with an error
    ck.rule("U1 ERROR DISCIPLINE (ufs/aufs/diskd swap-out): Fs::Ufs::UFSStoreState::closeCompleted reports DISK_OK only with theFile->error() false, and "
            "UFSStoreState::writeCompleted either tests the error status it is handed, or every DiskFile implementation used with it (BlockingFile, DiskThreadsDiskFile, "
            "DiskdFile) hands ioRequestor->writeCompleted() a non-OK status only after recording the failure in the member its error() reports (SIBLING: all three agree); "
            "storeSwapOutFileClosed marks the entry SWAPOUT_DONE only with errflag false (C16 U1). Otherwise a failed final write (ENOSPC/EFBIG) leaves a truncated file "
            "that is later served as a complete hit")
    dio = ck.facts(["src/fs/ufs/UFSStoreState.cc", "src/DiskIO/Blocking/BlockingFile.cc", "src/DiskIO/DiskThreads/DiskThreadsDiskFile.cc",
                    "src/DiskIO/DiskDaemon/DiskdFile.cc"], whole=False)
    US = "Fs::Ufs::UFSStoreState::"
    cc = dio.fn(US + "closeCompleted")
    ferr = E.M(lambda t: E.strip(t).get("k") == "call" and E.strip(t).get("f") == "DiskFile::error", "theFile->error()")
    ok_code = dio.enum_with("DISK_OK")["DISK_OK"] if False else 0
    ck.require_fact("U1.close-status", ck.flow(cc), ev_call(US + "doCloseCallback", arg={0: E.m_const(0)}), ferr, False, "doCloseCallback(DISK_OK)",
                    why="(the swapout would be reported successful although the file object saw an error)")
    wc = dio.fn(US + "writeCompleted")
    p0 = wc.params[0].get("d") if wc.params else None
    consumer_tests = bool(p0) and any(p0 in E.mentions(b["term"]["c"]) for b in wc.blocks.values() if b.get("term") and b["term"].get("c") is not None)
    ERRMEM = {"BlockingFile": "BlockingFile::error_", "DiskThreadsDiskFile": "DiskThreadsDiskFile::errorOccured", "DiskdFile": "DiskdFile::errorOccured"}
    if consumer_tests:
        ck.ok("U1.write-error-recorded", wc.where(), "UFSStoreState::writeCompleted branches on the status it is handed")
    for cls, mem in sorted(ERRMEM.items()):
        efs = [f for f in dio.fns(cls + "::error") if f.sig == ""]
        ck.need(len(efs) == 1, "C10: %s::error() const not found" % cls)
        ef = efs[0]
        ck.need(any(mem in E.mentions(ev.get("x")) for b in ef.blocks.values() for ev in b["ev"] if ev.get("e") == "ret") or
                any(b.get("term") and b["term"].get("c") is not None and mem in E.mentions(b["term"]["c"]) for b in ef.blocks.values()),
                "C10: %s::error() no longer reports %s" % (cls, mem))
        wd = dio.fn(cls + "::writeDone")
        done = ev_call("IORequestor::writeCompleted")
        rec = ev_assign(mem, E.m_const(1))
        fl = ck.flow(wd, markers={"rec": rec}, track_markers=["rec"])
        sites = ck.sites(fl, done, "ioRequestor->writeCompleted()", 1)
        for st in sites:
            a0 = E.strip(st.ev["x"])["a"][0]
            if E.const(a0) == 0:
                ck.ok("U1.write-error-recorded", st.where(), "%s::writeDone: reports DISK_OK" % cls)
                continue
            # a possibly non-OK status: recorded on this path, or the status expression is established zero, or the consumer tests it
            zero = st.has(E.M(lambda t, a0=a0: E.key(t) == E.key(a0), "status"), False)
            if st.env.get("#rec") == 1 or zero or consumer_tests:
                ck.ok("U1.write-error-recorded", st.where(), "%s::writeDone: a failure status is handed over only after %s = true (or the consumer tests it)" % (cls, mem.split("::")[-1]))
            else:
                ck.violation("U1.write-error-recorded", "U1|%s::writeDone|status-dropped" % cls, st.where(),
                             "%s::writeDone hands status `%s` to ioRequestor->writeCompleted() without recording the failure in %s, and UFSStoreState::writeCompleted "
                             "ignores the status it receives: closeCompleted() then reports DISK_OK, the entry becomes SWAPOUT_DONE and the truncated file is served as a "
                             "complete hit" % (cls, E.key(a0), mem.split("::")[-1]), fl.witness(st))

    ck.assume("version mixing under concurrent replacement (slot reuse between reads), the slice chains of rock/shared memory (C55/C57) and ufs/aufs/diskd read completion are not analysed")
    ck.assume("offline_mode and collapsed forwarding are cut; CheckSwapMetaUrl cannot validate entries without known URIs and CheckSwapMetaKey skips private keys (both listed as guards)")
    ck.assume("the exception edge from UnpackHitSwapMeta() to readHeader's catch handler is not modelled: a throw leaves the normal path, which is the only path reaching the disk bytes' use")
