"""C63 Forwarding loops and Max-Forwards are honoured (DESIGN.md 5/C63)."""
from .. import expr as E
from ..flow import ev_call, ev_return, ev_assign, ev_any
from .C04 import is_mutator


def run(ck):
    facts = ck.facts(["src/client_side_reply.cc", "src/client_side_request.cc", "src/client_side.cc", "src/http.cc"], whole=True)
    hdr = facts.enum("Http::HdrType")
    meth = facts.enum("Http::_method_t")
    MF = hdr["MAX_FORWARDS"]
    loop = E.m_is_mem("RequestFlags::loopDetected")

    ck.rule("L1 every FwdState::Start call reached from the client-side reply code requires request->flags.loopDetected established false; "
            "WHO(FwdState::Start) = confirmed set")
    callers = ck.who_calls("L1.who-forwards", facts, "FwdState::Start", {
        "clientReplyContext::processMiss": "cache miss", "clientReplyContext::processExpired": "revalidation of a stale hit",
        "ConnStateData::getSslContextStart": "ssl-bump certificate peek", "ConnStateData::startPeekAndSplice": "ssl-bump peek",
        "ConnStateData::switchToHttps": "ssl-bump", "UrnState::start": "URN resolver (internal request)", "UrnState::setUriResFromRequest": "URN resolver",
        "FwdState::fwdStart": "internal wrapper (netdb exchange, peer digest: squid-generated requests)",
        "ConnStateData::doPeekAndSpliceStep": "ssl-bump", "ConnStateData::httpsPeeked": "ssl-bump",
    }, min_callers=3, kinds=("call",))
    for fname in ("clientReplyContext::processMiss", "clientReplyContext::processExpired"):
        fn = facts.fn(fname)
        fl = ck.flow(fn)
        ck.require_fact("L1.loop-gate", fl, ev_call("FwdState::Start"), loop, False, "FwdState::Start", why="(a request whose Via names this proxy would be forwarded again)")

    ck.rule("L1b clientInterpretRequestHeaders: RESPONSE(strListIsSubstr(Via list, ThisCache2) true -> flags.loopDetected = true)")
    cih = facts.fn("clientInterpretRequestHeaders")
    via_hit = E.m_calls("strListIsSubstr") & E.m_mentions("ThisCache2")
    ck.require_response("L1b.via-sets-loop", cih, via_hit, True, ev_assign("RequestFlags::loopDetected", E.m_const(1)), "loopDetected=true")
    ok = False
    for t in ck.local_defs(cih).get("s", []):
        t = E.strip(t)
        if isinstance(t, dict) and t.get("k") == "call" and t.get("f") == "HttpHeader::getList" and E.const(t["a"][0]) == hdr["VIA"]:
            ok = True
    if ok:
        ck.ok("L1b.via-list", cih.where(), "the list searched for this cache's name is getList(VIA)")
    else:
        ck.violation("L1b.via-list", "L1b|via-list-def", cih.where(), "the string searched for ThisCache2 is no longer defined as req_hdr->getList(Http::HdrType::VIA)")

    ck.rule("L1c MONOTONE FLAG: every write of RequestFlags::loopDetected in the program stores the constant true (a detected loop is never un-detected by a later header)")
    ws = facts.writers("RequestFlags::loopDetected")
    ck.need(len(ws) >= 2, "C63: writers of RequestFlags::loopDetected not found (%d)" % len(ws))
    for (n_, f_, l_, op_, cv_) in ws:
        where = "%s:%d" % (f_.replace("/repo/", "").replace(facts.all_units[0].split("/src/")[0] + "/", ""), l_)
        if op_ == "=" and cv_ == 1:
            ck.ok("L1c.loop-flag-monotone", where, "%s raises loopDetected" % n_)
        elif op_ == "init":
            ck.ok("L1c.loop-flag-monotone", where, "%s initialises loopDetected" % n_, nontrivial=False)
        else:
            ck.violation("L1c.loop-flag-monotone", "L1c|loopDetected-write|%s" % n_, where,
                         "%s writes loopDetected with a non-constant/non-true value (%s %s): an earlier Via loop verdict can be overwritten" % (n_, op_, cv_))

    ck.rule("L2 clientProcessRequest: doCallouts() requires mustReplyToOptions false; it is defined from method==OPTIONS && getInt64(MAX_FORWARDS)==0; "
            "clientGetMoreData: RESPONSE(TRACE && getInt64(MAX_FORWARDS)==0 -> traceReply()), doGetMoreData/identifyStoreObject unreachable on that path")
    cpr = facts.fn("clientProcessRequest")
    fl = ck.flow(cpr)
    ck.require_fact("L2.options-gate", fl, ev_call("ClientHttpRequest::doCallouts"), E.m_is_ref("mustReplyToOptions"), False, "doCallouts()",
                    why="(OPTIONS with Max-Forwards: 0 would be forwarded)")
    good = False
    for t in ck.local_defs(cpr).get("mustReplyToOptions", []):
        t = E.strip(t)
        if E.const(t) == 0:
            continue
        m = E.mentions(t)
        has_opt = any(E.const(n) == meth["METHOD_OPTIONS"] for n in E.walk(t) if n.get("dk") == "enum")
        has_mf = any(n.get("k") == "bin" and n.get("op") == "==" and E.const(n.get("r")) == 0 and
                     any(c.get("f") == "HttpHeader::getInt64" and E.const(c["a"][0]) == MF for c in E.calls_in(n.get("l")))
                     for n in E.walk(t))
        top_and = t.get("k") == "bin" and t.get("op") == "&&"
        good = has_opt and has_mf and top_and
    if good:
        ck.ok("L2.options-def", cpr.where(), "mustReplyToOptions = (method == OPTIONS) && (getInt64(MAX_FORWARDS) == 0)")
    else:
        ck.violation("L2.options-def", "L2|mustReplyToOptions-def", cpr.where(), "mustReplyToOptions is no longer (method == METHOD_OPTIONS && Max-Forwards == 0)")

    cgm = facts.fn("clientGetMoreData")
    mf0 = E.m_cmp("==", E.m_calls("HttpHeader::getInt64") & E.M(lambda t: E.const(E.strip(t)["a"][0]) == MF, "arg0==MAX_FORWARDS"), E.m_const(0))
    # `x == 0` is normalised to the falsity of x: the atom is getInt64(MAX_FORWARDS) with value False
    mfz = E.m_calls("HttpHeader::getInt64") & E.M(lambda t: E.const(E.strip(t)["a"][0]) == MF, "arg0==MAX_FORWARDS")
    ck.require_response("L2.trace-answered-locally", cgm, mfz, False, ev_call("clientReplyContext::traceReply"), "traceReply()", term_kinds=("IfStmt",),
                        why="(TRACE with Max-Forwards: 0 would be forwarded)")
    fl = ck.flow(cgm)
    ck.require_fact("L2.trace-forward-gate", fl, ev_call("clientReplyContext::doGetMoreData"), mfz, True, "doGetMoreData()")
    trace_eq = E.M(lambda t: E.strip(t).get("k") == "bin" and E.strip(t).get("op") == "==" and E.const(E.strip(t)["r"]) == meth["METHOD_TRACE"], "method==TRACE")
    ck.require_fact("L2.non-trace-to-store", fl, ev_call("clientReplyContext::identifyStoreObject"), trace_eq, False, "identifyStoreObject()")

    ck.rule("L3 copyOneHeader... case MAX_FORWARDS: the only mutator is putInt64(MAX_FORWARDS, hops - 1) with hops = e->getInt64(), hops > 0 established")
    copy1 = facts.fn("copyOneHeaderFromClientsideRequestToUpstreamRequest")
    fl = ck.flow(copy1, switch_assume=lambda cond: MF if "HttpHeaderEntry::id" in E.mentions(cond) else None)
    ss = ck.sites(fl, is_mutator, "mutator under MAX_FORWARDS", 1)
    hops_defs = ck.local_defs(copy1).get("hops", [])
    hops_ok = bool(hops_defs) and all(E.strip(t).get("f") == "HttpHeaderEntry::getInt64" for t in hops_defs)
    for s in ss:
        x = E.strip(s.ev["x"])
        a = x.get("a", [])
        okshape = (x.get("f") == "HttpHeader::putInt64" and len(a) == 2 and E.const(a[0]) == MF and E.strip(a[1]).get("k") == "bin" and E.strip(a[1]).get("op") == "-"
                   and E.m_is_ref("hops")(E.strip(a[1])["l"]) and E.const(E.strip(a[1])["r"]) == 1 and hops_ok)
        if okshape and s.has(E.m_cmp("<", E.m_const(0), E.m_is_ref("hops")), True):
            ck.ok("L3.max-forwards-decrement", s.where(), "Max-Forwards forwarded as hops - 1 under hops > 0")
        else:
            ck.violation("L3.max-forwards-decrement", "L3|copyOneHeader|MAX_FORWARDS", s.where(),
                         "under e->id == MAX_FORWARDS the header is emitted by '%s' (expected putInt64(MAX_FORWARDS, hops - 1) guarded by hops > 0)" % s.desc()[:120])
    ck.assume("Via token matching inside strListIsSubstr() is not analysed")
