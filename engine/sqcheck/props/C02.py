"""C02 Request bodies reach the origin with valid framing: framing-end clause (DESIGN.md 5/C02)."""
from .. import expr as E
from ..flow import ev_call, ev_return, ev_exit, ev_assign, ev_any, ev_call_short

H = "HttpStateData::"
LAST = "0\r\n\r\n"


def mentions_last_chunk(ev):
    if ev.get("e") != "call":
        return False
    return any(n.get("k") == "str" and n.get("v") == LAST for n in E.walk(ev["x"]))


def run(ck):
    facts = ck.facts(["src/http.cc", "src/BodyPipe.cc", "src/client_side.cc", "src/clients/Client.cc"], whole=True)

    ck.rule("B1 every emission of the chunked terminator \"0\\r\\n\\r\\n\" in http.cc requires receivedWholeRequestBody established and marks flags.sentLastChunk first; "
            "receivedWholeRequestBody is set to true only by Client::handleRequestBodyProductionEnded (whole program)")
    n = 0
    for f in facts.all_fns(lambda f: f.file.endswith("src/http.cc")):
        if not any(mentions_last_chunk(ev) for b in f.blocks.values() for ev in b["ev"]):
            continue
        fl = ck.flow(f, markers={"sent": ev_assign(H + "flags", None) if False else (lambda ev: ev.get("e") == "asg" and E.m_is_mem("sentLastChunk")(ev.get("lhs")) and E.const(ev.get("rhs")) == 1)})
        for s in fl.find(mentions_last_chunk):
            n += 1
            if s.has(E.m_is_mem("receivedWholeRequestBody"), True):
                ck.ok("B1.last-chunk-needs-whole-body", s.where(), "%s sends the last-chunk only with receivedWholeRequestBody" % f.name)
            else:
                ck.violation("B1.last-chunk-needs-whole-body", "B1|%s|last-chunk" % f.name, s.where(),
                             "%s can send the chunked terminator although the request body was not received completely (an aborted upload would look complete to the origin)" % f.name, fl.witness(s))
            if s.passed("sent"):
                ck.ok("B1.last-chunk-once", s.where(), "flags.sentLastChunk is set before the terminator is written")
            else:
                ck.violation("B1.last-chunk-once", "B1|%s|sentLastChunk" % f.name, s.where(), "%s writes the terminator without recording flags.sentLastChunk (it could be sent twice)" % f.name)
    ck.need(n >= 2, "C02: expected two last-chunk emitters in http.cc, found %d" % n)
    ck.who_writes("B1.who-sets-whole-body", facts, "Client::receivedWholeRequestBody", {"Client::handleRequestBodyProductionEnded": "the producer's end-of-body notification"},
                  value=lambda v: v == 1, min_writers=1)

    ck.rule("B2 HttpStateData::getMoreRequestBody: the hex size line, the data append and the pre-allocation use one local defined as raw.contentSize(); Must(size > 0) precedes "
            "`return true` (an empty data chunk would be read as the last-chunk); nothing is produced when getMoreData() gave nothing")
    gm = facts.fn(H + "getMoreRequestBody")
    fl = ck.flow(gm)
    size_args = [E.key(E.strip(s.ev["x"])["a"][-1]) for s in fl.find(lambda ev: ev_call_short("appendf")(ev))]
    data_args = [E.key(E.strip(s.ev["x"])["a"][1]) for s in fl.find(lambda ev: ev_call_short("append")(ev) and "MemBuf::content" in E.mentions(E.strip(ev["x"])["a"][0]))]
    d = ck.local_defs(gm).get("rawDataSize", [])
    if size_args and data_args and set(size_args + data_args) == {"rawDataSize"} and d and all(E.strip(t).get("f") == "MemBuf::contentSize" and E.m_is_ref("raw")(E.strip(t).get("o")) for t in d):
        ck.ok("B2.chunk-length-consistent", gm.where(), "chunk-size line and chunk data both use rawDataSize = raw.contentSize()")
    else:
        ck.violation("B2.chunk-length-consistent", "B2|getMoreRequestBody|lengths", gm.where(), "chunk-size line uses %s, data uses %s, rawDataSize = %s" % (size_args, data_args, [E.key(t) for t in d]))
    ck.require_fact("B2.no-empty-chunk", fl, ev_return(E.m_const(1)), E.m_cmp("<", E.m_const(0), E.m_is_ref("rawDataSize")), True, "return true", why="(a zero-size data chunk terminates the body early)")
    ck.require_fact("B2.data-available", fl, lambda ev: ev_call_short("appendf")(ev), E.m_calls("BodyPipe::getMoreData"), True, "appendf(chunk size)", history=True)

    ck.rule("B3 BodyPipe accounting: every theBuf.append(_, n) is followed on all paths by postAppend(n) and every theBuf.consume(n) by postConsume(n) with the same n; "
            "thePutSize/theGetSize are written only by postAppend/postConsume (and construction)")
    for fname, op, post in (("BodyPipe::putMoreData", "MemBuf::append", "BodyPipe::postAppend"), ("BodyPipe::getMoreData", "MemBuf::consume", "BodyPipe::postConsume"), ("BodyPipe::consume", "MemBuf::consume", "BodyPipe::postConsume")):
        fn = facts.fn(fname)
        ops = [(b["id"], ev) for b in fn.blocks.values() for ev in b["ev"] if ev_call(op, obj=E.m_is_mem("theBuf"))(ev)]
        ck.need(len(ops) == 1, "C02: expected one theBuf.%s in %s" % (op.split("::")[-1], fname))
        amount = E.key(E.strip(ops[0][1]["x"])["a"][-1])
        post_same = lambda ev, amount=amount, post=post: ev_call(post)(ev) and E.key(E.strip(ev["x"])["a"][0]) == amount
        # RESPONSE from the op's block: every path to exit passes post(amount)
        fl = ck.flow(fn, start=ops[0][0], markers={"post": post_same})
        bad = [s for s in fl.sites if s.ev.get("e") == "exit" and s.ev.get("kind") in ("ret", "fall") and not s.passed("post")]
        if not bad:
            ck.ok("B3.accounted", fn.where(ops[0][1]["l"]), "%s: theBuf.%s(%s) is always followed by %s(%s)" % (fname, op.split("::")[-1], amount, post.split("::")[-1], amount))
        else:
            ck.violation("B3.accounted", "B3|%s|unaccounted" % fname, fn.where(ops[0][1]["l"]), "%s changes theBuf by %s without %s(%s) on some path: produced/consumed sizes drift from the buffer" % (fname, amount, post.split("::")[-1], amount))
    ck.who_writes("B3.who-counts", facts, "BodyPipe::thePutSize", {"BodyPipe::postAppend": "accounting", "BodyPipe::BodyPipe": "init"}, min_writers=1)
    ck.who_writes("B3.who-counts", facts, "BodyPipe::theGetSize", {"BodyPipe::postConsume": "accounting", "BodyPipe::BodyPipe": "init"}, min_writers=1)
    ci = facts.fn("BodyPipe::checkIn")
    fl = ck.flow(ci)
    grow = E.M(lambda t: E.strip(t).get("k") == "bin" and E.strip(t).get("op") == "<" and E.m_is_mem("checkedOutSize")(E.strip(t)["l"]) and E.m_is_ref("currentSize")(E.strip(t)["r"]), "checkedOutSize < currentSize")
    shrink = E.M(lambda t: E.strip(t).get("k") == "bin" and E.strip(t).get("op") == "<" and E.m_is_ref("currentSize")(E.strip(t)["l"]) and E.m_is_mem("checkedOutSize")(E.strip(t)["r"]), "currentSize < checkedOutSize")
    ck.require_fact("B3.checkin-direction", fl, ev_call("BodyPipe::postAppend"), grow, True, "postAppend in checkIn")
    ck.require_fact("B3.checkin-direction", fl, ev_call("BodyPipe::postConsume"), shrink, True, "postConsume in checkIn")

    ck.rule("B4 ConnStateData::handleChunkedRequestBody: the body is declared finished (finishDechunkingRequest(true)) only if the chunk parser reported completion; "
            "the size-limit verdict is taken before that; malformed chunking returns ERR_INVALID_REQ")
    hc = facts.fn("ConnStateData::handleChunkedRequestBody")
    fl = ck.flow(hc, markers={"limit": ev_call("clientIsRequestBodyTooLargeForPolicy")})
    fin = ev_call("ConnStateData::finishDechunkingRequest", arg={0: E.m_const(1)})
    ck.require_fact("B4.finished-only-when-parsed", fl, fin, ck.m_result_of(hc, "Http::One::TeChunkedParser::parse"), True, "finishDechunkingRequest(true)",
                    why="(an incomplete chunked upload would be forwarded as a complete body)")
    ck.require_passed("B4.limit-before-finish", fl, fin, "limit", "finishDechunkingRequest(true)")
    ck.rule("B5 HttpStateData::statusIfComplete: COMPLETE_PERSISTENT_MSG (the server connection goes back to the idle pool) only with flags.request_sent established "
            "true: a connection on which the request body is only partly written must never carry another request (the next request would be written into the "
            "unfinished body); HttpStateData::sendComplete/wroteLast set request_sent only when the whole request was handed to the socket")
    sic = facts.fn("HttpStateData::statusIfComplete")
    conn = facts.enum_with("COMPLETE_PERSISTENT_MSG")
    sent = E.m_is_mem("request_sent")
    sfl = ck.flow(sic)
    why5 = "(an early complete reply would return a server connection to the pool while the request body is still being relayed)"
    for st in ck.sites(sfl, ev_return(E.m_const(conn["COMPLETE_PERSISTENT_MSG"])), "return COMPLETE_PERSISTENT_MSG", 1):
        if st.has(sent, True):
            ck.ok("B5.persistent-only-after-whole-request", st.where(), "statusIfComplete: COMPLETE_PERSISTENT_MSG requires flags.request_sent")
            continue
        # the guard may sit in the callers instead: then *every* call of statusIfComplete() must be made with request_sent established
        loose = []
        ncalls = 0
        for cname in sorted({c[0] for c in facts.callers("HttpStateData::statusIfComplete") if c[3] == "call" and "/tests/" not in c[1]}):
            cf = facts.fn(cname)
            cfl = ck.flow(cf)
            for cs in cfl.find(ev_call("HttpStateData::statusIfComplete")):
                ncalls += 1
                if not cs.has(sent, True):
                    loose.append(cs)
        if ncalls and not loose:
            ck.ok("B5.persistent-only-after-whole-request", st.where(), "statusIfComplete is only called with flags.request_sent established (%d call sites)" % ncalls)
        else:
            ck.violation("B5.persistent-only-after-whole-request", "B5.persistent-only-after-whole-request|HttpStateData::statusIfComplete|return_COMPLETE_PERSISTENT_MSG|needs:mem(request_sent)=T",
                         st.where(), "HttpStateData::statusIfComplete: 'return COMPLETE_PERSISTENT_MSG' is reachable without flags.request_sent established, here or at %s %s"
                         % (", ".join(c.where() for c in loose[:3]) or "any call site", why5), sfl.witness(st))
    ck.rule("B6 ConnStateData::handleRequestBodyData (identity bodies): the bytes offered to the body pipe are the front of inBuf (rawContent(), length()); inBuf is "
            "consumed by exactly the amount bodyPipe->putMoreData() accepted, and only that; bodyPipe is dropped only when the pipe says it needs no more data")
    hb = facts.fn("ConnStateData::handleRequestBodyData")
    hfl = ck.flow(hb)
    put = ck.m_result_of(hb, "BodyPipe::putMoreData")
    for st in ck.sites(hfl, ev_call("BodyPipe::putMoreData"), "bodyPipe->putMoreData()", 1):
        a = E.strip(st.ev["x"])["a"]
        src_ok = len(a) == 2 and any(n.get("f") == "SBuf::rawContent" and E.m_is_mem("inBuf")(n.get("o")) for n in E.walk(a[0])) and \
            any(n.get("f") == "SBuf::length" and E.m_is_mem("inBuf")(n.get("o")) for n in E.walk(a[1]))
        if src_ok:
            ck.ok("B6.identity-body-accounting", st.where(), "putMoreData(inBuf.rawContent(), inBuf.length())")
        else:
            ck.violation("B6.identity-body-accounting", "B6|handleRequestBodyData|put-args", st.where(), "the request body is fed to the pipe from %s" % [E.key(x)[:60] for x in a])
    for st in ck.sites(hfl, ev_call("ConnStateData::consumeInput"), "consumeInput()", 1):
        a0 = E.strip(st.ev["x"])["a"][0]
        if put(a0):
            ck.ok("B6.identity-body-accounting", st.where(), "consumeInput(<what putMoreData accepted>)")
        else:
            ck.violation("B6.identity-body-accounting", "B6|handleRequestBodyData|consume-arg", st.where(),
                         "inBuf is consumed by %s, not by the amount bodyPipe->putMoreData() accepted: body bytes are lost or sent twice when the pipe is full" % E.key(a0))
    ck.require_fact("B6.pipe-dropped-when-satisfied", hfl, ev_call("RefCount::operator=", obj=E.m_is_mem("ConnStateData::bodyPipe"), arg={0: E.M(lambda t: E.strip(t).get("k") == "null", "nullptr")}),
                    E.m_calls("BodyPipe::mayNeedMoreData"), False, "bodyPipe = nullptr", why="(the body would be declared produced while the pipe still expects data)")
    ck.assume("byte equality across packets and 100-continue timing are not decided")
