"""C47 Helper replies reach the request that asked: reply-to-request binding gates of helper.cc (DESIGN.md 5/C47)."""
from .. import expr as E
from ..flow import ev_call, ev_assign, ev_any, ev_exit, ev_return

SES = "Helper::Session::"
REQS = "Helper::SessionBase::requests"
INDEX = SES + "requestsIndex"
REPLYX = SES + "replyXaction"
IGNORE = SES + "ignoreToEom"
CONC = "Helper::ChildConfig::concurrency"


def on_member(member, methods):
    """event predicate: call of one of std container `methods` on the member `member`"""
    def p(ev):
        if ev.get("e") != "call":
            return False
        x = E.strip(ev.get("x"))
        if not isinstance(x, dict) or x.get("f", "").split("::")[-1] not in methods:
            return False
        o = E.strip(x.get("o") or {})
        return isinstance(o, dict) and o.get("k") == "mem" and o.get("m") == member
    return p


def need_locals(ck, fn, *names):
    have = {p.get("d") for p in fn.params} | {ev.get("d") for b in fn.blocks.values() for ev in b["ev"] if ev.get("e") == "decl"}
    ck.need(set(names) <= have, "C47: %s no longer has local(s) %s (renamed? re-confirm the rule instance)" % (fn.name, sorted(set(names) - have)))


def run(ck):
    facts = ck.facts(["src/helper.cc"], whole=False)
    conc = E.m_is_mem(CONC)

    # ------------------------------------------------------------------ popRequest: which request a channel ID selects
    ck.rule("P1 Helper::Session::popRequest: with concurrency the result is taken only from requestsIndex.find(request_number) and only when the ID was found "
            "(it != end()); without concurrency it is requests.front() (only if !empty) and that element is popped; the result is null otherwise")
    pop = facts.fn(SES + "popRequest")
    # P1c (independent of local names): with concurrency, a request leaves the queue only when the reply's channel ID was found in the index
    ck.rule("P1c popRequest, structural form: under childs.concurrency every removal from the request queue (requests.erase/pop_front) happens only with "
            "`<iterator> != requestsIndex.end()` established for an iterator defined by requestsIndex.find(<the channel-ID parameter>): a reply for an unknown, "
            "duplicate or late channel must select no request (and certainly not the oldest one)")
    chan = pop.params[0]["d"] if pop.params else None
    ck.need(chan, "C47: popRequest lost its channel-ID parameter")
    pdefs = ck.local_defs(pop)

    def is_find(d):
        c = [n for n in E.walk(d) if isinstance(n, dict) and n.get("k") == "call" and n.get("f") == "std::map::find"]
        return len(c) == 1 and E.m_is_mem(INDEX)(c[0].get("o")) and len(c[0].get("a", [])) == 1 and E.m_is_ref(chan)(c[0]["a"][0])
    its = sorted(n for n, ds in pdefs.items() if ds and all(is_find(d) for d in ds))
    removal = on_member(REQS, {"erase", "pop_front", "pop_back", "clear"})
    cfl = ck.flow(pop, assume=[(conc, True)])
    rsites = cfl.find(removal)
    if not its:
        ck.violation("P1c.remove-only-found", "P1c|popRequest|no-index-lookup", pop.where(), "popRequest no longer looks the reply's channel ID up with requestsIndex.find(%s)" % chan)
    for st in rsites:
        notfound = E.M(lambda t: bool(set(its) & E.mentions(t)) and "std::map::end" in E.mentions(t) and E.strip(t).get("op") == "==", "it == requestsIndex.end()")
        if its and st.has(notfound, False):
            ck.ok("P1c.remove-only-found", st.where(), "concurrent: a request is removed from the queue only after its channel ID was found")
        else:
            ck.violation("P1c.remove-only-found", "P1c|popRequest|removal-without-found-id", st.where(),
                         "with concurrency, popRequest can remove a request from the queue (%s) on a path where the reply's channel ID was not found in requestsIndex: "
                         "a reply for an unknown/duplicate channel is delivered to another (the oldest) request" % st.desc()[:60], cfl.witness(st))
    ck.need(rsites, "C47: popRequest no longer removes the selected request from the queue")
    need_locals(ck, pop, "r", "request_number")
    found = E.M(lambda t: {"it", "std::map::end"} <= E.mentions(t), "it==end()")
    fl = ck.flow(pop, assume=[(conc, True)])
    for s in ck.sites(fl, ev_assign("r", ops=("=",)), "r = (concurrent)", 1):
        rhs = s.ev.get("rhs")
        if "it" in E.mentions(rhs) and not ({REQS, "std::list::front", "std::list::back"} & E.mentions(rhs)):
            ck.ok("P1.by-channel-id", s.where(), "concurrent reply is bound through the index iterator")
        else:
            ck.violation("P1.by-channel-id", "P1|concurrent-source", s.where(), "popRequest (concurrency) takes the request from %s, not from the channel-ID index" % E.key(rhs))
    ck.require_fact("P1.by-channel-id", fl, ev_assign("r", ops=("=",)), found, False, "r = *(it->second)", why="(a reply for an unknown channel would be applied to some request)")
    defs = ck.local_defs(pop).get("it", [])
    def is_lookup(d):
        c = [n for n in E.walk(d) if isinstance(n, dict) and n.get("k") == "call" and n.get("f") == "std::map::find"]
        return len(c) == 1 and E.m_is_mem(INDEX)(c[0].get("o")) and len(c[0].get("a", [])) == 1 and E.m_is_ref("request_number")(c[0]["a"][0])
    good = bool(defs) and all(is_lookup(d) for d in defs)
    (ck.ok if good else lambda r, w, t: ck.violation(r, "P1|lookup-key", w, t))("P1.by-channel-id", pop.where(),
                                                                             "index lookup is requestsIndex.find(request_number)" if good else "popRequest no longer looks the reply's channel ID up in requestsIndex: %s" % [E.key(d) for d in defs])
    fl = ck.flow(pop, assume=[(conc, False)], markers={"front": on_member(REQS, {"front"})})
    for s in ck.sites(fl, ev_assign("r", ops=("=",)), "r = (serial)", 1):
        if {REQS, "std::list::front"} <= E.mentions(s.ev.get("rhs")):
            ck.ok("P1.serial-in-order", s.where(), "non-concurrent reply is bound to requests.front()")
        else:
            ck.violation("P1.serial-in-order", "P1|serial-source", s.where(), "popRequest (no concurrency) takes %s instead of requests.front()" % E.key(s.ev.get("rhs")))
    ck.require_fact("P1.serial-in-order", fl, ev_assign("r", ops=("=",)), E.M(lambda t: {REQS, "std::list::empty"} <= E.mentions(t), "requests.empty()"), False, "r = requests.front()")
    for s in ck.sites(fl, on_member(REQS, {"pop_front", "pop_back", "erase", "clear"}), "requests removal (serial)", 1):
        if on_member(REQS, {"pop_front"})(s.ev) and s.passed("front"):
            ck.ok("P1.serial-in-order", s.where(), "the element returned by front() is removed with pop_front()")
        else:
            ck.violation("P1.serial-in-order", "P1|serial-removal", s.where(), "popRequest (no concurrency) removes with '%s' (not pop_front after front())" % s.desc()[:60])
    for s in ck.sites(ck.flow(pop), ev_return(), "return", 1):
        x = E.strip(s.ev.get("x"))
        if E.m_is_ref("r")(x) and any(E.strip(d).get("k") == "null" for d in ck.local_defs(pop).get("r", [])):
            ck.ok("P1.null-otherwise", s.where(), "returns r, initialised to null")
        else:
            ck.violation("P1.null-otherwise", "P1|return", s.where(), "popRequest returns %s" % E.key(x))

    # ------------------------------------------------------------------ container end discipline
    ck.rule("P2 WHO (helper.cc) on the per-server request queue: requests grow only at the end (insert(end(), r) / push_back) and shrink only by pop_front or "
            "erase(index iterator) in the confirmed functions; helperDispatch indexes and writes the same reqId it stored in the request")
    grow = {"helperDispatch": "insert(end())", "helperStatefulDispatch": "push_back"}
    shrink = {SES + "popRequest": "reply binding", "Helper::SessionBase::dropQueued": "server gone", "helperStatefulHandleRead": "stateful reply",
              SES + "checkForTimedOutRequests": "timeout of the oldest request"}
    n = 0
    for fn in facts.all_fns():
        for b in fn.blocks.values():
            for ev in b["ev"]:
                if not on_member(REQS, {"insert", "push_back", "push_front", "emplace", "emplace_back", "emplace_front", "splice", "erase", "pop_front", "pop_back", "clear",
                                        "remove", "remove_if", "swap", "assign", "resize", "sort", "reverse", "merge", "unique"})(ev):
                    continue
                n += 1
                x = E.strip(ev["x"])
                m = x["f"].split("::")[-1]
                where = fn.where(ev.get("l"))
                if m == "push_back" and fn.name in grow:
                    ck.ok("P2.queue-ends", where, "%s appends with push_back" % fn.name)
                elif m == "insert" and fn.name in grow and {"std::list::end", REQS} <= E.mentions(x["a"][0]):
                    ck.ok("P2.queue-ends", where, "%s inserts at requests.end()" % fn.name)
                elif m == "pop_front" and fn.name in shrink:
                    ck.ok("P2.queue-ends", where, "%s removes the oldest request (%s)" % (fn.name, shrink[fn.name]))
                elif m == "erase" and fn.name == SES + "popRequest" and "it" in E.mentions(x["a"][0]):
                    ck.ok("P2.queue-ends", where, "popRequest erases the indexed element")
                else:
                    ck.violation("P2.queue-ends", "P2|%s|%s" % (fn.name, m), where, "%s changes the request queue with %s(%s) outside the end discipline"
                                 % (fn.name, m, ", ".join(E.key(a)[:40] for a in x.get("a", []))))
    ck.need(n >= 5, "C47: request queue mutators vanished")
    hd = facts.fn("helperDispatch")
    need_locals(ck, hd, "reqId", "it", "r")
    fl = ck.flow(hd)
    idx = ck.sites(fl, on_member(INDEX, {"insert", "emplace"}), "requestsIndex.insert", 1)
    wr = ck.sites(fl, ev_call({"Packable::appendf", "MemBuf::appendf"}, obj=E.m_mentions(SES + "wqueue")), "wqueue->appendf", 1)
    st = ck.sites(fl, ev_assign("Helper::Request::Id"), "request.Id =", 1)
    def exact_pair(x):
        return any(isinstance(n, dict) and len(n.get("a", [])) == 2 and E.m_is_ref("reqId")(n["a"][0]) and E.m_is_ref("it")(n["a"][1]) for n in E.walk(x))
    ok = all(exact_pair(s.ev["x"]) for s in idx) and all(any(E.m_is_ref("reqId")(a) for a in E.strip(s.ev["x"]).get("a", [])) for s in wr) and all(E.m_is_ref("reqId")(s.ev.get("rhs")) for s in st)
    its = ck.local_defs(hd).get("it", [])
    ok = ok and bool(its) and all(on_member(REQS, {"insert"})({"e": "call", "x": d}) for d in its)
    if ok:
        ck.ok("P2.same-id", hd.where(), "reqId is stored in the request, indexed with the inserted position and written to the helper")
    else:
        ck.violation("P2.same-id", "P2|same-id", hd.where(), "helperDispatch no longer uses one reqId for request.Id, the index entry and the written channel ID")
    for s in idx:
        if not s.has(conc, True):
            ck.violation("P2.same-id", "P2|index-needs-concurrency", s.where(), "requestsIndex.insert not under concurrency")

    # ------------------------------------------------------------------ helperHandleRead: when a reply is bound
    ck.rule("R1 helperHandleRead: srv->popRequest(i) -- the point where a reply is bound to a request -- only with ignoreToEom F, replyXaction null and "
            "needsMore F (channel ID complete); with concurrency `i` comes from strtol(msg); helperReturnBuffer() only with needsMore F; "
            "RESPONSE(popRequest() null -> ignoreToEom = true); ignoreToEom = false only with eom T")
    hr = facts.fn("helperHandleRead")
    need_locals(ck, hr, "needsMore", "i", "eom", "msg")
    more = E.m_is_ref("needsMore")
    bind = ev_call(SES + "popRequest")
    fl = ck.flow(hr, tracked=["needsMore"])
    ck.require_fact("R1.bind-gates", fl, bind, E.m_is_mem(IGNORE), False, "popRequest()", why="(the rest of a discarded reply would be bound to a request)")
    ck.require_fact("R1.bind-gates", fl, bind, E.m_is_mem(REPLYX), False, "popRequest()", why="(a second request would be bound while a reply is being accumulated)")
    for s in ck.sites(fl, bind, "popRequest()", 1):
        if s.has(more, False) or s.env.get("needsMore") == ("c", 0):
            ck.ok("R1.bind-needs-complete-id", s.where(), "popRequest() reached only with needsMore false")
        else:
            ck.violation("R1.bind-needs-complete-id", "R1|helperHandleRead|popRequest|needs:needsMore=F", s.where(),
                         "helperHandleRead: srv->popRequest(i) is reachable with needsMore true, i.e. with a channel ID cut off by the read boundary "
                         "(a partial ID selects another request, or none and the real reply is then skipped to EOM)", fl.witness(s))
        arg = E.strip(s.ev["x"])["a"][0]
        defs = ck.local_defs(hr).get(E.strip(arg).get("d"), []) if E.strip(arg).get("k") == "ref" else []
        if defs and all(E.const(d) == 0 or ("strtol" in E.mentions(d) and "msg" in E.mentions(d)) for d in defs) and any("strtol" in E.mentions(d) for d in defs):
            ck.ok("R1.channel-from-reply", s.where(), "channel ID is 0 or strtol(msg, ...)")
        else:
            ck.violation("R1.channel-from-reply", "R1|channel-id-source", s.where(), "popRequest argument no longer comes from strtol(msg): %s" % [E.key(d) for d in defs])
    for s in ck.sites(fl, ev_call("strtol"), "strtol()", 1):
        if not s.has(conc, True):
            ck.violation("R1.channel-from-reply", "R1|strtol-needs-concurrency", s.where(), "channel ID parsed without concurrency")
    ck.require_fact("R1.deliver-needs-complete-id", fl, ev_call("helperReturnBuffer"), more, False, "helperReturnBuffer()", why="(reply bytes would be delivered before the channel ID is known)")
    popped = ck.m_result_of(hr, SES + "popRequest") | E.M(lambda t: E.strip(t).get("k") == "bin" and E.strip(t).get("op") == "=" and (SES + "popRequest") in E.mentions(t), "(replyXaction = popRequest())")
    ck.require_response("R1.unknown-channel-ignored", hr, popped, False, ev_assign(IGNORE, E.m_const(1)), "ignoreToEom = true", term_kinds=("IfStmt",),
                        why="(the body of a reply for an unknown channel would be parsed as a new reply)")
    ck.require_fact("R1.ignore-until-eom", fl, ev_assign(IGNORE, E.m_const(0)), E.m_is_ref("eom"), True, "ignoreToEom = false", why="(discarding would stop in the middle of a reply)")

    # ------------------------------------------------------------------ helperReturnBuffer: delivery
    ck.rule("R2 helperReturnBuffer: hlp->callBack(*r) only with r = srv->replyXaction non-null, msgEnd T (complete reply) and cbdataReferenceValid(r->request.data) T; "
            "RESPONSE(msgEnd T -> srv->replyXaction = nullptr) so that the next reply starts a new binding")
    rb = facts.fn("helperReturnBuffer")
    need_locals(ck, rb, "r", "msgEnd", "srv")
    fl = ck.flow(rb)
    cb = ev_call("Helper::Client::callBack")
    for s in ck.sites(fl, cb, "callBack()", 1):
        a = E.strip(s.ev["x"])["a"]
        defs = ck.local_defs(rb).get("r", [])
        if a and E.mentions(a[0]) == {"r"} and defs and all(E.m_is_mem(REPLYX)(d) for d in defs):
            ck.ok("R2.deliver-bound-request", s.where(), "callBack(*r) with r = srv->replyXaction")
        else:
            ck.violation("R2.deliver-bound-request", "R2|callback-target", s.where(), "helperReturnBuffer calls back %s, not the request bound to this reply" % (E.key(a[0]) if a else "?"))
    ck.require_fact("R2.deliver-gates", fl, cb, E.m_is_ref("r"), True, "callBack()")
    ck.require_fact("R2.deliver-gates", fl, cb, E.m_is_ref("msgEnd"), True, "callBack()", why="(a partial reply would be delivered)")
    ck.require_fact("R2.deliver-gates", fl, cb, ck.m_result_of(rb, "cbdataReferenceValid"), True, "callBack()", why="(a reply would be delivered to a gone requester)")
    ck.require_response("R2.binding-released", rb, E.m_is_ref("msgEnd"), True, ev_assign(REPLYX, E.M(lambda t: E.strip(t).get("k") == "null", "nullptr")), "replyXaction = nullptr",
                        term_kinds=("IfStmt",), why="(the next reply on this server would be appended to the finished request)")
    ck.assume("Helper::Reply parsing, the stateful helper path (helperStatefulHandleRead), retries and timeouts are not decided; "
              "only the binding point of a reply to a request and the queue discipline are checked")
