"""C34 Log records are well delimited: the logformat quoting switch and the four quoting transformations (DESIGN.md 5/C34).

Technique: per-byte case exclusion.  Each quoting loop is re-analysed once per concrete input byte b (every branch atom that
compares the current byte - and, for rfc1738, the flags word - with constants is evaluated for that b, integer casts applied by
bit width), and the set of reachable output events (raw byte copy / constant bytes / hex pair / bulk copy) is read off the CFG."""
from .. import expr as E
from ..flow import ev_exit, ev_call, ev_assign, ev_any

CR, LF, BS, DQ, PCT = 13, 10, 92, 34, 37
CTL_HIGH = set(range(0, 32)) | set(range(127, 256))


def wrap(v, iw):
    if v is None or iw is None:
        return v
    if iw == 1:
        return int(bool(v))
    w = abs(iw)
    if w >= 64:
        return v
    v &= (1 << w) - 1
    if iw < 0 and v >= (1 << (w - 1)):
        v -= (1 << w)
    return v


def evalc(t, bind):
    """concrete value of an expression tree under bindings [(node predicate, value)], or None if it depends on anything else"""
    if not isinstance(t, dict):
        return None
    for pred, val in bind:
        if pred(t):
            return wrap(val, t.get("iw"))
    k = t.get("k")
    if "v" in t and k not in ("str", "flit"):
        return t["v"]
    if k == "null":
        return 0
    if k in ("icast", "cast"):
        return wrap(evalc(t.get("e"), bind), t.get("iw"))
    if k == "un" and t.get("op") in ("!", "-", "~"):
        v = evalc(t.get("e"), bind)
        if v is None:
            return None
        return wrap({"!": int(not v), "-": -v, "~": ~v}[t["op"]], t.get("iw"))
    if k == "bin":
        op = t.get("op")
        if op in ("=", "+=", "-=", ","):
            return None
        a, b = evalc(t.get("l"), bind), evalc(t.get("r"), bind)
        if op == "&&":
            return 0 if (a == 0 or b == 0) else (1 if (a and b) else None)
        if op == "||":
            return 1 if (a or b) else (0 if (a == 0 and b == 0) else None)
        if a is None or b is None:
            return None
        f = {"==": lambda: int(a == b), "!=": lambda: int(a != b), "<": lambda: int(a < b), "<=": lambda: int(a <= b), ">": lambda: int(a > b),
             ">=": lambda: int(a >= b), "&": lambda: a & b, "|": lambda: a | b, "+": lambda: a + b, "-": lambda: a - b, "*": lambda: a * b}.get(op)
        return wrap(f(), t.get("iw")) if f else None
    return None


def concrete_flow(ck, fn, bind, **kw):
    mt = E.M(lambda t: evalc(t, bind) not in (None, 0), "true for this byte")
    mf = E.M(lambda t: evalc(t, bind) == 0, "false for this byte")
    return ck.flow(fn, assume=[(mt, True), (mf, False)], switch_assume=lambda c: evalc(c, bind), **kw)


def emit_of(ev, inp):
    """classify an output event of a quoting loop: ('const', [bytes]) | ('raw', tree) | ('hex',) | ('bulk', len tree, src tree) | ('fmt', literal) | None.
    `inp` = name of the input string parameter"""
    if ev.get("e") == "asg" and ev.get("op") == "=":
        l = E.strip(ev.get("lhs"))
        if isinstance(l, dict) and l.get("k") == "un" and l.get("op") == "*" and E.strip(l.get("e")).get("k") == "ref" and "*" in E.strip(l["e"]).get("t", ""):
            r = E.strip(ev.get("rhs"))
            c = E.const(ev.get("rhs"))
            if c is not None:
                return ("const", [c & 255])
            if isinstance(r, dict) and r.get("k") == "idx":
                return ("hex",)
            return ("raw", r)
        return None
    if ev.get("e") != "call":
        return None
    x = E.strip(ev.get("x"))
    if not isinstance(x, dict) or x.get("k") != "call":
        return None
    f, a = x.get("f"), x.get("a", [])
    if f == "memcpy" and len(a) == 3:
        return ("bulk", a[2], a[1])
    if f == "snprintf" and len(a) >= 3:
        return ("fmt", E.strip(a[2]).get("v"), a[3:])
    if f in ("MemBuf::append", "Packable::append") and len(a) == 2:
        s = E.strip(a[0])
        if s.get("k") == "str":
            return ("const", [ord(ch) & 255 for ch in s["v"]][:E.const(a[1]) if E.const(a[1]) is not None else None])
        if s.get("k") == "ref" and s.get("d") == inp:
            return ("raw", {"k": "un", "op": "*", "e": s}) if E.const(a[1]) == 1 else ("bulk", a[1], a[0])
        return ("other",)
    return None


class Escaper:
    """per-byte reachability table of one quoting function"""

    def __init__(self, ck, fn, extra_bind=(), tracked=(), esc_marker=None, inp_index=0):
        self.ck, self.fn = ck, fn
        ck.need(len(fn.params) > inp_index, "C34: %s lost its parameters" % fn.name)
        self.inp = fn.params[inp_index]["d"]
        evs = [(ev, emit_of(ev, self.inp)) for b in fn.blocks.values() for ev in b["ev"]]
        self.emits = [(ev, em) for ev, em in evs if em]
        raws = {E.key(em[1]) for ev, em in self.emits if em[0] == "raw"}
        ck.need(len(raws) == 1, "C34: %s: expected one kind of raw byte copy, found %s" % (fn.name, sorted(raws)))
        xkey = raws.pop()
        self.is_x = lambda t: t.get("k") in ("ref", "un") and E.key(t) == xkey
        self.xkey = xkey
        self.table = {}
        for b in range(256):
            bind = [(self.is_x, b)] + list(extra_bind)
            mk = {"esc": esc_marker} if esc_marker else {}
            fl = concrete_flow(ck, fn, bind, tracked=list(tracked), markers=mk)
            row = {"raw": [], "const": set(), "other": []}
            for s in fl.sites:
                em = emit_of(s.ev, self.inp)
                if not em:
                    continue
                if em[0] == "raw":
                    row["raw"].append(s)
                elif em[0] == "const":
                    row["const"] |= set(em[1])
                elif em[0] == "other":
                    row["other"].append(s)
            self.table[b] = row

    def check_no_raw(self, rule, forbidden, why):
        ck, fn = self.ck, self.fn
        bad = sorted(b for b in forbidden if self.table[b]["raw"])
        if not bad:
            ck.ok(rule, fn.where(), "%s: no raw copy of input byte values %s is reachable (%d byte values decided)" % (fn.name, why, len(forbidden)))
        for b in bad[:4]:
            s = self.table[b]["raw"][0]
            ck.violation(rule, "%s|%s|raw-copy-of-byte|%d" % (rule, fn.name, b), s.where(),
                         "%s: the raw copy '%s' is reachable when the input byte is %d (%s must be escaped)" % (fn.name, s.desc(), b, why), s.flow.witness(s))

    def check_no_const_linebreak(self, rule):
        ck, fn = self.ck, self.fn
        bad = sorted({(b, c) for b in range(256) for c in self.table[b]["const"] if c in (CR, LF)})
        if not bad:
            ck.ok(rule, fn.where(), "%s: no constant CR/LF byte is ever written" % fn.name)
        for b, c in bad[:2]:
            ck.violation(rule, "%s|%s|writes-constant|%d" % (rule, fn.name, c), fn.where(), "%s writes a literal byte %d to the output (input byte %d)" % (fn.name, c, b))

    def check_escape_pair(self, rule, b, first, second):
        """for input byte b the constants written include `first` and `second` (e.g. backslash + 'r')"""
        ck, fn = self.ck, self.fn
        row = self.table[b]
        if {first, second} <= row["const"] and not row["raw"]:
            ck.ok(rule, fn.where(), "%s: input byte %d is written as %r%r" % (fn.name, b, chr(first), chr(second)))
        else:
            ck.violation(rule, "%s|%s|escape-of|%d" % (rule, fn.name, b), fn.where(),
                         "%s: input byte %d is not written as the two bytes %r %r (constants seen: %s)" % (fn.name, b, chr(first), chr(second), sorted(row["const"])))

    def max_expansion(self):
        """upper bound on the bytes written for one input byte: the heaviest simple CFG path (a simple path crosses the copy loop's
        header at most once), weights = bytes written per block; the terminating NUL is not counted"""
        fn = self.fn
        w = {}
        for bid, b in fn.blocks.items():
            n = 0
            for ev in b["ev"]:
                em = emit_of(ev, self.inp)
                if em and em[0] in ("raw", "hex"):
                    n += 1
                elif em and em[0] == "const":
                    n += len([c for c in em[1] if c != 0])
                elif em and em[0] == "fmt":
                    n += 3
            w[bid] = n
        best, steps = [0], [0]

        def dfs(bid, seen, acc):
            steps[0] += 1
            self.ck.need(steps[0] < 400000, "C34: too many paths in %s" % fn.name)
            acc += w[bid]
            best[0] = max(best[0], acc)
            for s in fn.blocks[bid]["succ"]:
                if s["to"] not in seen and s["to"] in fn.blocks:
                    dfs(s["to"], seen | {s["to"]}, acc)
        dfs(fn.entry, {fn.entry}, 0)
        return best[0]


def strcspn_set(ck, fn, len_tree, src_tree, inp):
    """the reject set if `len_tree` is (a local defined exactly by) strcspn(<inp>, "literal") and the copy source is <inp>"""
    t = E.strip(len_tree)
    if isinstance(t, dict) and t.get("k") == "ref":
        ds = ck.local_defs(fn).get(t["d"], [])
        if len(ds) != 1:
            return None
        t = E.strip(ds[0])
    if not (isinstance(t, dict) and t.get("f") == "strcspn" and E.m_is_ref(inp)(t["a"][0]) and E.strip(t["a"][1]).get("k") == "str" and E.m_is_ref(inp)(src_tree)):
        return None
    return {ord(c) & 255 for c in E.strip(t["a"][1])["v"]}


def run(ck):
    facts = ck.facts(["src/format/Format.cc", "src/format/Quoting.cc", "lib/rfc1738.cc", "src/tools.cc"], whole=False)
    Q = facts.enum("Format::Quoting")
    asm = facts.fn("Format::Format::assemble")

    # ------------------------------------------------------------------ the quoting switch
    ck.rule("G1 ENUMTABLE Format::assemble: for every enumerator K of Format::Quoting except LOG_QUOTE_RAW, with fmt->quote == K assumed, every write of a "
            "non-empty field value to the record (mb.append/appendf of out) has passed K's quoting call (NONE: only required when the field's own quote flag "
            "is set); an enumerator without a case falls through unquoted and is reported")
    EXPECT = {
        "LOG_QUOTE_NONE": ("rfc1738_do_escape", "URL-escapes when the field asked for quoting"),
        "LOG_QUOTE_QUOTES": ("log_quoted_string", "quoted-string"),
        "LOG_QUOTE_MIMEBLOB": ("Format::QuoteMimeBlob", "mime blob"),
        "LOG_QUOTE_URL": ("rfc1738_do_escape", "URL"),
        "LOG_QUOTE_SHELL": ("strwordquote", "shell word"),
    }
    qmem = E.m_is_mem("Format::Token::quote")
    sw = [b for b in asm.blocks.values() if (b.get("term") or {}).get("k") == "SwitchStmt" and qmem(E.strip(b["term"]["c"]))]
    ck.need(len(sw) == 1, "C34: Format::assemble no longer has exactly one switch on fmt->quote")
    ck.need(asm.params, "C34: Format::assemble lost its MemBuf parameter")
    rec = asm.params[0]["d"]
    outs = set()
    for b in asm.blocks.values():
        for ev in b["ev"]:
            x = E.strip(ev.get("x")) if ev.get("e") == "call" else None
            if isinstance(x, dict) and x.get("f") == "MemBuf::append" and E.m_is_ref(rec)(x.get("o")) and len(x.get("a", [])) == 2:
                a0, a1 = E.strip(x["a"][0]), E.strip(x["a"][1])
                if a0.get("k") == "ref" and a0.get("dk") == "local" and a1.get("f") == "strlen" and E.m_is_ref(a0["d"])(a1["a"][0]):
                    outs.add(a0["d"])
    ck.need(len(outs) == 1, "C34: the record write mb.append(out, strlen(out)) vanished from Format::assemble")
    out = outs.pop()
    sink = lambda ev: (ev.get("e") == "call" and E.strip(ev["x"]).get("f") in ("MemBuf::append", "Packable::appendf", "MemBuf::appendf")
                       and E.m_is_ref(rec)(E.strip(ev["x"]).get("o")) and any(E.m_is_ref(out)(a) for a in E.strip(ev["x"]).get("a", [])))
    ck.need(Q["LOG_QUOTE_NONE"] == 0, "C34: LOG_QUOTE_NONE is no longer 0 (the gate atom normalises differently)")
    notnone = E.M(lambda t: qmem(E.strip(t)), "fmt->quote != LOG_QUOTE_NONE")       # `x != 0` is the truthiness atom `x`
    gate = [b for b in asm.blocks.values() if (b.get("term") or {}).get("c") is not None and any(notnone(l) for l in E.leaves(b["term"]["c"]))
            and b["term"].get("k") == "IfStmt"]
    ck.need(len(gate) == 1, "C34: the `quote || fmt->quote != LOG_QUOTE_NONE` gate vanished")
    # the per-field quote flag: a plain local tested in the same condition as fmt->quote != LOG_QUOTE_NONE (as a leaf of the gate's own condition or as
    # the short-circuit operand evaluated just before it; `quote || ...` and `!(!quote && ...)` alike)
    near = list(E.leaves(gate[0]["term"]["c"]))
    for b in asm.blocks.values():
        if (b.get("term") or {}).get("c") is not None and b["term"].get("k") in ("BinaryOperator", "ConditionalOperator") and any(s["to"] == gate[0]["id"] for s in b["succ"]):
            near += list(E.leaves(b["term"]["c"]))
    qf = {E.strip(E.norm(l)[0]).get("d") for l in near if isinstance(E.strip(E.norm(l)[0]), dict) and E.strip(E.norm(l)[0]).get("k") == "ref" and E.strip(E.norm(l)[0]).get("dk") == "local"}
    ck.need(len(qf) <= 1, "C34: several locals are tested next to fmt->quote != LOG_QUOTE_NONE")
    quote_flag = E.m_is_ref(qf.pop()) if qf else E.M(lambda t: False, "<no per-field quote flag>")
    url_flags = {}
    for name, k in sorted(Q.items(), key=lambda kv: kv[1]):
        if name == "LOG_QUOTE_RAW":
            continue
        callee = EXPECT.get(name, (None, ""))[0]
        quoting = (lambda ev, callee=callee: callee is not None and ev_call(callee)(ev) and any(E.m_is_ref(out)(a) for a in E.strip(ev["x"])["a"]))
        alts = [("P", "%s(out)" % callee, quoting)] + ([(quote_flag, False)] if name == "LOG_QUOTE_NONE" else [])
        ss = ck.require_any("G1.quoting-applied", asm, sink, alts, "mb.append(out)|%s" % name, min_sites=3,
                            switch_assume=lambda c, k=k: k if qmem(E.strip(c)) else None, assume=[(notnone, name != "LOG_QUOTE_NONE")],
                            why="(a field logged with %s would reach the record unquoted)" % name)
        if callee == "rfc1738_do_escape":
            fl = ck.flow(asm, switch_assume=lambda c, k=k: k if qmem(E.strip(c)) else None)
            fv = {E.const(E.strip(s.ev["x"])["a"][1]) for s in fl.find(quoting)}
            ck.need(len(fv) == 1 and None not in fv, "C34: %s no longer passes one constant flags word to rfc1738_do_escape" % name)
            url_flags[name] = fv.pop()

    # ------------------------------------------------------------------ mime blob
    ck.rule("G2 Format::QuoteMimeBlob, per input byte 0..255: the raw copy is unreachable for control bytes (incl. CR LF), bytes >= 0x7F, '%' and '\\'; CR and LF are "
            "written as backslash-r / backslash-n and backslash as two backslashes; no constant CR/LF is written; the hex table c2x is the 256 two-digit pairs; "
            "GINT: bytes written per input byte <= the allocation multiplier of xcalloc(1, strlen(header)*M + 1)")
    mime = Escaper(ck, facts.fn("Format::QuoteMimeBlob"))
    mime.check_no_raw("G2.mime-raw", CTL_HIGH | {PCT, BS}, "control/8-bit bytes, '%' and backslash")
    mime.check_no_const_linebreak("G2.mime-raw")
    mime.check_escape_pair("G2.mime-escapes", CR, BS, ord("r"))
    mime.check_escape_pair("G2.mime-escapes", LF, BS, ord("n"))
    mime.check_escape_pair("G2.mime-escapes", BS, BS, BS)
    ck.need(not any(r["other"] for r in mime.table.values()), "C34: unrecognised output primitive in QuoteMimeBlob")
    c2v = facts.var("c2x")
    want = "".join("%02x" % i for i in range(256))
    got = E.strip(c2v["init"]).get("v") if isinstance(c2v.get("init"), dict) else None
    if got is not None and got.endswith("...") and len(got) < len(want):
        got, want = got[:-3], want[:len(got) - 3]          # the extractor keeps the first 400 characters of a literal; the length is checked through the array type
    where = "src/format/Quoting.cc:%d" % c2v.get("l", 0)
    if got is not None and got.lower() == want and c2v.get("arr") == 513:
        ck.ok("G2.mime-escapes", where, "c2x is the table of two-digit hex pairs (first %d entries compared, array of 512+1 chars)" % (len(want) // 2))
    else:
        ck.violation("G2.mime-escapes", "G2|c2x|table", where, "c2x is not the 256-entry two-digit hex table")
    mfn = mime.fn
    allocs = [E.strip(ev["x"])["a"] for b in mfn.blocks.values() for ev in b["ev"] if ev_call("xcalloc")(ev) and E.const(E.strip(ev["x"])["a"][1]) is None]
    ck.need(len(allocs) == 1, "C34: QuoteMimeBlob no longer has one sized xcalloc")
    m_mime = alloc_mult(allocs[0][1], mime.inp)
    ck.need(m_mime is not None, "C34: QuoteMimeBlob buffer is no longer strlen(header)*M + k")
    expansion("G2.mime-size", ck, mfn, mime, m_mime)

    # ------------------------------------------------------------------ quoted string
    ck.rule("G3 log_quoted_string / strwordquote, per input byte: the bulk copy length is strcspn(str, SET) of the same str with SET containing CR LF '\"' and backslash; "
            "after it CR/LF are never copied raw and are written as backslash-r / backslash-n; any other byte of SET is copied only after a backslash was written; "
            "GINT Format::assemble: out_len = strlen(out)*M+1 with M >= bytes written per input byte, quotedOut is used only when out_len < sizeof(tmp) <= sizeof(quotedOut)")
    lqs_fn, swq_fn = facts.fn("log_quoted_string"), facts.fn("strwordquote", file="src/tools.cc")
    for fn in (lqs_fn, swq_fn):
        ix = 1 if fn is swq_fn else 0
        inp = fn.params[ix]["d"]
        bs_emit = lambda ev, inp=inp: (emit_of(ev, inp) or ("",))[0] == "const" and emit_of(ev, inp)[1][:1] == [BS]
        esc = Escaper(ck, fn, esc_marker=bs_emit, inp_index=ix)
        bulks = [(ev, em) for ev, em in esc.emits if em[0] == "bulk"]
        ck.need(len(bulks) == 1, "C34: %s: expected exactly one bulk copy" % fn.name)
        rset = strcspn_set(ck, fn, bulks[0][1][1], bulks[0][1][2], inp)
        need = {CR, LF, DQ, BS}
        if rset is not None and need <= rset:
            ck.ok("G3.qs-bulk", fn.where(bulks[0][0]["l"]), "%s: bulk copy stops at strcspn(%s, set) with CR LF \" \\ in the set %s" % (fn.name, inp, sorted(rset)))
        else:
            ck.violation("G3.qs-bulk", "G3|%s|bulk-copy-set" % fn.name, fn.where(bulks[0][0]["l"]),
                         "%s: the bulk copy is not bounded by strcspn(%s, set) with CR LF \" \\ in the set (set: %s)" % (fn.name, inp, sorted(rset) if rset else None))
        esc.check_no_raw("G3.qs-raw", {CR, LF}, "CR and LF")
        esc.check_no_const_linebreak("G3.qs-raw")
        esc.check_escape_pair("G3.qs-escapes", CR, BS, ord("r"))
        esc.check_escape_pair("G3.qs-escapes", LF, BS, ord("n"))
        for b in sorted((rset or need) - {CR, LF, 0}):
            for s in esc.table[b]["raw"]:
                if s.passed("esc"):
                    ck.ok("G3.qs-escapes", s.where(), "%s: byte %d is copied only after a backslash" % (fn.name, b))
                else:
                    ck.violation("G3.qs-escapes", "G3|%s|unescaped|%d" % (fn.name, b), s.where(), "%s: input byte %d can be copied without a preceding backslash" % (fn.name, b), s.flow.witness(s))
        ck.need(not any(r["other"] for r in esc.table.values()), "C34: unrecognised output primitive in %s" % fn.name)
        if fn is lqs_fn:
            lqs = esc
    lens = [d for d in ck.local_defs(asm).get("out_len", [])]
    szs = [b["term"]["c"] for b in asm.blocks.values() if b.get("term") and b["term"].get("c") is not None and "out_len" in E.mentions(b["term"]["c"])]
    ck.need(len(lens) == 1 and len(szs) == 1, "C34: out_len sizing of the quoted-string buffer vanished from Format::assemble")
    m_qs = alloc_mult(lens[0], out)
    ck.need(m_qs is not None, "C34: out_len is no longer strlen(out)*M + k")
    expansion("G3.qs-size", ck, asm, lqs, m_qs)
    fl = ck.flow(asm, switch_assume=lambda c: Q["LOG_QUOTE_QUOTES"] if qmem(E.strip(c)) else None)
    lim = E.M(lambda t: E.strip(t).get("op") == "<" and E.m_is_ref("out_len")(E.strip(t)["l"]) and E.const(E.strip(t)["r"]) is not None, "(out_len < K)")
    static_buf = ev_assign("newout", E.M(lambda t: E.strip(t).get("k") == "ref" and E.strip(t).get("dk") == "static", "a static buffer"), ops=("=",))
    for s in ck.require_fact("G3.qs-size", fl, static_buf, lim, True, "newout = <static buffer>", why="(the fixed buffer would be used for a value that does not fit)"):
        K = [E.const(E.strip(fl.trees[f[1]])["r"]) for f in s.facts if f[0] == "A" and f[2] and lim(fl.trees[f[1]])][0]
        ty = E.strip(s.ev["rhs"]).get("t", "")
        n = int(ty[ty.index("[") + 1:ty.index("]")]) if "[" in ty else 0
        if n >= K:
            ck.ok("G3.qs-size", s.where(), "the static buffer (%d bytes) is used only for out_len < %d" % (n, K))
        else:
            ck.violation("G3.qs-size", "G3|assemble|static-buffer-size", s.where(), "the static quoted-string buffer has %d bytes but is used for out_len up to %d" % (n, K))
    dyn = ev_assign("newout", E.M(lambda t: E.strip(t).get("f") == "xmalloc" and E.m_is_ref("out_len")(E.strip(t)["a"][0]), "xmalloc(out_len)"), ops=("=",))
    ck.require_any("G3.qs-size", asm, ev_call("log_quoted_string"), [("P", "newout = xmalloc(out_len)", dyn), ("P", "newout = <static>", static_buf)], "log_quoted_string(out, newout)")

    # ------------------------------------------------------------------ URL
    ck.rule("G4 rfc1738_do_escape with the constant flags Format::assemble passes (URL and NONE cases), per input byte with flag locals (do_escape) constant-propagated: the raw "
            "copy is unreachable for control bytes (incl. CR LF), 0x7F and 8-bit bytes, and for '%' under LOG_QUOTE_URL; the escape is snprintf \"%%%02X\"; "
            "GINT: bytes per input byte <= multiplier of bufsize = strlen(url)*M+1")
    rfn = facts.fn("rfc1738_do_escape")
    ck.need(len(rfn.params) == 2, "C34: rfc1738_do_escape signature changed")
    flagp = rfn.params[1]["d"]
    for name, fv in sorted(url_flags.items()):
        esc = Escaper(ck, rfn, extra_bind=[(lambda t, flagp=flagp: t.get("k") == "ref" and t.get("d") == flagp, fv)], tracked=flag_locals(ck, rfn))
        forb = CTL_HIGH | ({PCT} if name == "LOG_QUOTE_URL" else set())
        esc.check_no_raw("G4.url-raw", forb, "control/8-bit bytes%s (flags %d, %s)" % (" and '%'" if PCT in forb else "", fv, name))
        esc.check_no_const_linebreak("G4.url-raw")
        fm = {em[1] for ev, em in esc.emits if em[0] == "fmt"}
        if fm == {"%%%02X"}:
            ck.ok("G4.url-raw", rfn.where(), "rfc1738_do_escape escapes with snprintf \"%%%02X\"")
        else:
            ck.violation("G4.url-raw", "G4|rfc1738_do_escape|format", rfn.where(), "rfc1738_do_escape no longer escapes with the literal format \"%%%%%%02X\" (found %s)" % sorted(map(str, fm)))
        ck.need(not any(r["other"] for r in esc.table.values()), "C34: unrecognised output primitive in rfc1738_do_escape")
    sizes = [ev["rhs"] for b in rfn.blocks.values() for ev in b["ev"] if ev_assign("bufsize", ops=("=",))(ev)]
    ck.need(len(sizes) == 1 and alloc_mult(sizes[0], rfn.params[0]["d"]) is not None, "C34: rfc1738_do_escape bufsize is no longer strlen(url)*M + k")
    expansion("G4.url-size", ck, rfn, esc, alloc_mult(sizes[0], rfn.params[0]["d"]))
    ck.rule("G5 one record per transaction: ConnStateData::terminateAll, when it terminates transactions that may leave unparsed client bytes behind (request body, "
            "CONNECT, TLS handshake: the local naming that kind of input is non-null), leaves with inBuf empty -- on every path from that test either inBuf.clear() is "
            "passed or inBuf.isEmpty() was established true; otherwise checkLogging() in swanSong() logs those bytes as a second, bogus transaction record")
    cs2 = ck.facts(["src/client_side.cc"], whole=False)
    ta = cs2.fn("ConnStateData::terminateAll")
    kinds = sorted(n for n, ds in ck.local_defs(ta).items() if ds and all(E.strip(d).get("k") == "cond" and any(x.get("k") == "str" for x in E.walk(d)) and any(x.get("k") == "null" for x in E.walk(d)) for d in ds))
    ck.need(len(kinds) == 1, "C34: terminateAll no longer classifies the leftover input in one local (found %s)" % kinds)
    leftover = E.m_is_ref(kinds[0])
    inbuf_empty = E.M(lambda t: E.strip(t).get("k") == "call" and E.strip(t).get("f") == "SBuf::isEmpty" and E.m_is_mem("inBuf")(E.strip(t).get("o")), "inBuf.isEmpty()")
    clear = lambda ev: ev.get("e") == "call" and E.strip(ev["x"]).get("f") == "SBuf::clear" and E.m_is_mem("inBuf")(E.strip(ev["x"]).get("o"))
    edges = ck.trigger_edges(ta, leftover, True)
    ck.need(edges, "C34: terminateAll no longer tests whether leftover input has to be forgotten")
    for (bid, lab, to) in edges:
        fl5 = ck.flow(ta, start=to, markers={"cleared": clear}, track_markers=["cleared"], track_atoms={"empty": inbuf_empty}, init_env=ck.edge_marks(ta, bid, lab))
        bad = [st for st in fl5.find(ev_exit(("ret", "fall"))) if not (st.env.get("#cleared") == 1 or st.tracked("empty") is True)]
        where = ta.where(ta.blocks[bid]["term"].get("l"))
        if not bad:
            ck.ok("G5.leftover-input-forgotten", where, "terminateAll: leftover body/CONNECT/TLS bytes are cleared (or inBuf is known empty) on every path")
        else:
            ck.violation("G5.leftover-input-forgotten", "G5|terminateAll|leftover-bytes-kept", bad[0].where(),
                         "terminateAll can return with unparsed bytes of the terminated transaction still in inBuf: swanSong()/checkLogging() then writes a second "
                         "`error:transaction-end-before-headers` record for them", fl5.witness(bad[0]))
    ck.assume("exactly-one-record-per-transaction is not decided; reversibility is decided only as 'escape introducers are themselves escaped'; "
              "width truncation (%.*s) of an already quoted value is not analysed; rfc1738 unsafe/reserved character tables are not evaluated")


def flag_locals(ck, fn):
    """locals that only ever receive constants by plain assignment (flag idiom), to be constant-propagated"""
    stepped = {E.root_decl(ev.get("lhs"))[1] for b in fn.blocks.values() for ev in b["ev"] if ev.get("e") == "asg" and ev.get("op") not in ("=", "init")}
    return sorted(n for n, ds in ck.local_defs(fn).items() if n not in stepped and ds and all(E.const(d) is not None for d in ds))


def alloc_mult(t, what):
    """M if t is strlen(<what>)*M + k with k >= 1"""
    from .C32 import mult_of
    t = E.strip(t)
    if isinstance(t, dict) and t.get("k") == "bin" and t.get("op") == "+" and (E.const(t.get("r")) or 0) >= 1:
        return mult_of(t.get("l"), what)
    return None


def expansion(rule, ck, fn, esc, mult):
    n = esc.max_expansion()
    if n <= mult:
        ck.ok(rule, fn.where(), "%s writes at most %d bytes per input byte; the buffer is sized strlen*%d+1" % (esc.fn.name, n, mult))
    else:
        ck.violation(rule, "%s|%s|multiplier" % (rule, esc.fn.name), fn.where(), "%s can write %d bytes per input byte but its buffer is sized strlen*%d+1" % (esc.fn.name, n, mult))
