"""C57 Rock rebuild indexes only intact entries: publish/chain/slot gates of Rock::Rebuild (DESIGN.md 5/C57)."""
from .. import expr as E
from ..flow import ev_call, ev_return, ev_assign, ev_any

RB = "Rock::Rebuild::"
LS = "Rock::LoadingSlot::"
LE = "Rock::LoadingEntry::"
MAP = "Ipc::StoreMap::"


def setter(name):
    """call of the one-argument (setter) overload with a true argument"""
    return ev_call(name, nargs=1, arg={0: E.m_const(1)})


def getter(name, local):
    return E.m_calls(name) & E.M(lambda t: E.m_is_ref(local)(E.strip(t)["o"]), "on(%s)" % local)


def m_eq(a, b):
    """`a == b` in either operand order"""
    return E.M(E.m_cmp("==", a, b) | E.m_cmp("==", b, a), "(%s == %s)" % (a.desc, b.desc))


def result_of(ck, fn, callee, on=None):
    """local helper: atom is a call of `callee` (on local object `on`), or a local whose every definition is exactly such a call
    (so hoisting a tested call into a const local is not reported)"""
    direct = getter(callee, on) if on else E.m_calls(callee)
    is_call = lambda t: isinstance(E.strip(t), dict) and E.strip(t).get("k") == "call" and E.strip(t).get("f") == callee and direct(E.strip(t))
    defs = ck.local_defs(fn)

    def pred(t):
        t = E.strip(t)
        if not isinstance(t, dict):
            return False
        if t.get("k") == "ref" and t.get("dk") in ("local", "static"):
            ds = defs.get(t["d"], [])
            return bool(ds) and all(is_call(x) for x in ds)
        return bool(direct(t))
    return E.M(pred, direct.desc)


def need_locals(ck, fn, *names):
    """exit 2 (not a verdict) if a local/parameter the matchers below refer to by name was renamed"""
    have = {p.get("d") for p in fn.params} | {ev.get("d") for b in fn.blocks.values() for ev in b["ev"] if ev.get("e") == "decl"}
    ck.need(set(names) <= have, "C57: %s no longer has local(s) %s (renamed? re-confirm the rule instance)" % (fn.name, sorted(set(names) - have)))


def run(ck):
    facts = ck.facts(["src/fs/rock/RockRebuild.cc"], whole=False)
    states = None
    for en in ("Rock::LoadingEntry::State", "Rock::LoadingEntry::(anonymous)"):   # `typedef enum {...} State` is an unnamed enum to the front end
        try:
            states = facts.enum(en)
            break
        except Exception:
            pass
    ck.need(states and {"leEmpty", "leLoading", "leLoaded", "leCorrupted", "leIgnored"} <= set(states), "C57: LoadingEntry state enumerators not found")
    on_state = lambda K: (lambda cond: K if (LE + "state") in E.mentions(cond) else None)

    # ------------------------------------------------------------------ finalizeOrThrow: the only publisher
    fin = facts.fn(RB + "finalizeOrThrow")
    validated = lambda ev: ev.get("e") == "asg" and ev.get("op") == "|=" and "ENTRY_VALIDATED" in E.mentions(ev.get("rhs"))
    publish = ev_any(ev_call(MAP + "closeForWriting"), validated)
    ck.rule("F1 finalizeOrThrow: ENTRY_VALIDATED is set / closeForWriting() is called only with le.size > 0, slotId < 0 (chain ended) and "
            "mappedSize == le.size (payload sizes add up) established")
    need_locals(ck, fin, "slotId", "mappedSize", "slot", "le")
    fl = ck.flow(fin, markers={"mark": setter(LS + "finalized")})
    size = E.m_is_mem(LE + "size")
    for m, v, why in [(E.m_cmp("<", E.m_is_ref("slotId"), E.m_const(0)), True, "an entry whose chain walk stopped before the chain end would become readable"),
                      (m_eq(E.m_is_ref("mappedSize"), size), True, "an entry whose slices do not add up to its size would become readable"),
                      (E.m_cmp("<", E.m_const(0), size), True, "an entry with no payload/no chain would become readable")]:
        ck.require_fact("F1.publish-gates", fl, publish, m, v, "ENTRY_VALIDATED|closeForWriting", min_sites=2, why="(%s)" % why)

    ck.rule("F1b finalizeOrThrow publishes only an entry that is whole by its own metadata: ENTRY_VALIDATED/closeForWriting only with le.anchored() established true "
            "(the inode slot, which carries the metadata, was loaded) and with the size recorded from the inode either unknown (swap_file_sz == 0, then it is set "
            "to le.size) or equal to the loaded size le.size; a chain whose payloads add up to less than the recorded entry size, or a tail without its inode, "
            "is not an intact entry")
    ck.require_fact("F1b.publish-needs-inode", fl, publish, getter(LE + "anchored", "le"), True, "ENTRY_VALIDATED|closeForWriting", min_sites=2,
                    why="(a chain tail whose inode slot is missing or zeroed would become a readable, metadata-less entry)")
    known = E.M(lambda t: any(m.endswith("::swap_file_sz") for m in E.mentions(t)) and E.strip(t).get("k") != "bin", "swap_file_sz (non-zero)")
    agree = E.M(lambda t: E.strip(t).get("k") == "bin" and E.strip(t).get("op") == "==" and any(m.endswith("::swap_file_sz") for m in E.mentions(t)) and (LE + "size") in E.mentions(t), "swap_file_sz == le.size")
    ck.require_any("F1b.publish-needs-size-agreement", fin, publish, [(known, False), (agree, True)], "ENTRY_VALIDATED|closeForWriting", min_sites=2, track_history=True,
                   why="(an entry whose loaded payload is shorter than the entry size recorded in its inode would become readable: hits would run past its last slice)")

    ck.rule("F2 finalizeOrThrow, each walked slot: slot.finalized(true) only with finalized() F (no loop, not taken by another entry), mapped() T, freed() F; "
            "mappedSize accumulation and the step to mapSlice.next only after marking that slot in the same iteration")
    mark = setter(LS + "finalized")
    for g, v, why in [("finalized", False, "a cyclic chain or a slot already owned by another entry would be accepted"),
                      ("mapped", True, "a slot that was never added to the map would be counted"),
                      ("freed", False, "a slot already given back as free space would be counted")]:
        ck.require_fact("F2.slot-gates", fl, mark, result_of(ck, fin, LS + g, "slot"), v, "slot.finalized(true)", why="(%s)" % why)
    ck.rule("F2c finalizeOrThrow, slot ownership: a walked slot is counted for entry fileNo only if something established that the slot was loaded *for that entry* "
            "(an equality relating the slot / slotId to fileNo); mapped()/!finalized()/!freed() alone also hold for a slot that another, not yet finalized entry "
            "mapped, so an on-disk nextSlot pointing into such an entry steals its slot")
    pfile = fin.params[0]["d"] if fin.params else "?"
    for st in fl.find(mark):
        owns = any(f[0] == "A" and f[2] is True and pfile in E.mentions(fl.trees[f[1]]) and ({"slot", "slotId"} & E.mentions(fl.trees[f[1]])) and E.strip(fl.trees[f[1]]).get("op") == "=="
                   for f in st.facts)
        if owns:
            ck.ok("F2c.slot-belongs-to-entry", st.where(), "the walked slot is checked to belong to this entry")
        else:
            ck.violation("F2c.slot-belongs-to-entry", "F2c|finalizeOrThrow|slot-ownership-unchecked", st.where(),
                         "finalizeOrThrow marks and counts a walked slot without any check that it was loaded for entry fileNo: a chain whose on-disk nextSlot points at "
                         "a slot mapped by another still-loading entry (e.g. one of unknown size) takes that slot over; the robbed entry is later freed and pushes a slot "
                         "that is part of a readable chain onto the free list")
    step = ev_any(ev_assign("mappedSize", ops=("+=",)), ev_assign("slotId", ops=("=",)))
    ck.require_passed("F2.walk-marks-each-slot", fl, step, "mark", "mappedSize+=|slotId=next", min_sites=2,
                      why="(a slot would be counted without the once-only finalized mark)")
    walked = [s for s in fl.find(ev_assign("slotId", ops=("=",)))]
    for s in walked:
        if "Ipc::StoreMapSlice::next" in E.mentions(s.ev.get("rhs")):
            ck.ok("F2.walk-follows-map-chain", s.where(), "finalizeOrThrow steps along the mapped slice's next link")
        else:
            ck.violation("F2.walk-follows-map-chain", "F2|walk|next-link", s.where(), "finalizeOrThrow no longer steps along StoreMapSlice::next (%s)" % E.key(s.ev.get("rhs")))

    ck.rule("F3 WHO (RockRebuild.cc): closeForWriting/switchWritingToReading/ENTRY_VALIDATED-set occur only in finalizeOrThrow; finalizeOrThrow is called only by "
            "finalizeOrFree; validateOneEntry finalizes only in state leLoading")
    n_pub = 0
    for fn in facts.all_fns():
        if not fn.file.endswith("RockRebuild.cc"):
            continue
        for b in fn.blocks.values():
            for ev in b["ev"]:
                if ev_call({MAP + "closeForWriting", MAP + "switchWritingToReading", MAP + "closeForWritingAndSwitchToReading"})(ev) or validated(ev):
                    n_pub += 1
                    if fn.name == fin.name:
                        ck.ok("F3.single-publisher", fn.where(ev["l"]), "publishing operation inside finalizeOrThrow")
                    else:
                        ck.violation("F3.single-publisher", "F3|publisher|%s" % fn.name, fn.where(ev["l"]), "%s makes a rebuilt entry readable outside finalizeOrThrow" % fn.name)
                if ev_call(RB + "finalizeOrThrow")(ev):
                    if fn.name == RB + "finalizeOrFree":
                        ck.ok("F3.single-publisher", fn.where(ev["l"]), "finalizeOrThrow called from finalizeOrFree")
                    else:
                        ck.violation("F3.single-publisher", "F3|caller|%s" % fn.name, fn.where(ev["l"]), "%s calls finalizeOrThrow directly (a failure would not free the entry)" % fn.name)
    ck.need(n_pub >= 2, "C57: publishing operations vanished from RockRebuild.cc")
    voe = facts.fn(RB + "validateOneEntry")
    for name, k in sorted(states.items()):
        fl2 = ck.flow(voe, switch_assume=on_state(k))
        if name == "leLoading":
            ck.sites(fl2, ev_call(RB + "finalizeOrFree"), "finalizeOrFree under leLoading", 1)
        else:
            ck.require_unreachable("F3.finalize-only-loading", fl2, ev_call({RB + "finalizeOrFree", RB + "finalizeOrThrow"}), "finalizeOrFree", "state==" + name)

    # ------------------------------------------------------------------ loading gates
    ck.rule("L1 loadOneSlot: useNewSlot() only with storeRebuildLoadEntry() T, header.empty() F, header.sane() T and after the header memcpy; "
            "the memcpy of sizeof(header) bytes only with contentSize() < sizeof(header) F")
    los = facts.fn(RB + "loadOneSlot")
    copy = ev_call("memcpy", arg={0: E.m_mentions("header")})
    need_locals(ck, los, "header")
    fl = ck.flow(los, markers={"copied": copy})
    use = ev_call(RB + "useNewSlot")
    for m, v, why in [(result_of(ck, los, "storeRebuildLoadEntry"), True, "a slot that could not be read would be used"),
                      (result_of(ck, los, "Rock::DbCellHeader::empty"), False, "an empty slot would be used"),
                      (result_of(ck, los, "Rock::DbCellHeader::sane"), True, "a slot with out-of-range links/sizes would be used")]:
        ck.require_fact("L1.slot-header-gates", fl, use, m, v, "useNewSlot()", why="(%s)" % why)
    ck.require_passed("L1.slot-header-gates", fl, use, "copied", "useNewSlot()")
    # (the size fact mentions `header` through sizeof, so it is consumed by the copy itself: it is required at the copy)
    for s in ck.sites(fl, copy, "memcpy(&header)", 1):
        n = E.const(E.strip(s.ev["x"])["a"][2])
        ck.need(n is not None and n > 0, "C57: header copy size is not a constant")
        trunc = E.m_cmp("<", E.m_calls("MemBuf::contentSize"), E.m_const(n))
        if s.has(trunc, False):
            ck.ok("L1.header-read-bounded", s.where(), "memcpy(&header, ..., %d) requires contentSize() < %d to be false" % (n, n))
        else:
            ck.violation("L1.header-read-bounded", "L1|loadOneSlot|memcpy-header|needs:contentSize>=copy-size", s.where(),
                         "loadOneSlot copies %d header bytes without contentSize() >= %d established (facts: %s)" % (n, n, ", ".join(s.fact_keys())[:200]), fl.witness(s))

    ck.rule("L2 loadingSlot/loadingEntry: the per-slot/per-entry record is constructed only with 0 <= id, id < limit (and slotId <= loadingPos) established")
    lsl = facts.fn(RB + "loadingSlot")
    need_locals(ck, lsl, "slotId")
    fl = ck.flow(lsl)
    mk = ev_call(LS + "LoadingSlot")
    sid = E.m_is_ref("slotId")
    for m, v in [(E.m_cmp("<", sid, E.m_const(0)), False), (E.m_cmp("<", sid, E.m_is_mem("dbSlotLimit")), True), (E.m_cmp("<", E.m_is_mem("loadingPos"), sid), False)]:
        ck.require_fact("L2.index-bounds", fl, mk, m, v, "LoadingSlot(slotId)", why="(a chain link from disk would index outside the loaded slots)")
    len_ = facts.fn(RB + "loadingEntry")
    need_locals(ck, len_, "fileNo")
    fl = ck.flow(len_)
    fno = E.m_is_ref("fileNo")
    for m, v in [(E.m_cmp("<", fno, E.m_const(0)), False), (E.m_cmp("<", fno, E.m_is_mem("dbEntryLimit")), True)]:
        ck.require_fact("L2.index-bounds", fl, ev_call(LE + "LoadingEntry"), m, v, "LoadingEntry(fileNo)")

    ck.rule("L3 useNewSlot: under state leLoaded/leCorrupted/leIgnored no addSlotToEntry()/startNewEntry(); under leLoading addSlotToEntry() only with sameEntry() T; "
            "under leEmpty only startNewEntry(); startNewEntry: addSlotToEntry()/primeNewEntry() only with openForWritingAt() non-null")
    uns = facts.fn(RB + "useNewSlot")
    grow = ev_call({RB + "addSlotToEntry", RB + "startNewEntry", RB + "mapSlot"})
    for name in ("leLoaded", "leCorrupted", "leIgnored"):
        ck.need(name in states, "C57: state %s vanished" % name)
        ck.require_unreachable("L3.no-growth-after-verdict", ck.flow(uns, switch_assume=on_state(states[name])), grow, "addSlotToEntry|startNewEntry", "state==" + name,
                               why="(a slot would be added to an entry that was already published or discarded)")
    fl = ck.flow(uns, switch_assume=on_state(states["leLoading"]))
    ck.require_fact("L3.same-key", fl, ev_call(RB + "addSlotToEntry"), result_of(ck, uns, RB + "sameEntry"), True, "addSlotToEntry()",
                    why="(a slot of another key would join the chain)")
    ck.rule("L3b sameEntry (which slots are merged into one loading entry): returns true only with the slot's key equal to the entry's key AND the slot's "
            "DbCellHeader::version equal to the version recorded for the loading entry; keys alone also match the stale slots of a previous version of the same URL, "
            "so after a crash during an overwrite the rebuilt entry is a new head followed by an old tail")
    se = facts.fn(RB + "sameEntry")
    sfl = ck.flow(se)
    vers = lambda t: any(n.get("k") == "mem" and n.get("m", "").endswith("::version") for n in E.walk(t))
    for st in ck.sites(sfl, lambda ev: ev.get("e") == "ret", "return", 1):
        x = st.ev.get("x")
        if E.const(x) == 0:
            continue
        mentions_version = vers(x) or any(f[0] in ("A", "H") and f[2] is True and vers(sfl.trees[f[1]]) for f in st.facts)
        if mentions_version:
            ck.ok("L3b.same-version", st.where(), "sameEntry compares the version as well as the key")
        else:
            ck.violation("L3b.same-version", "L3b|sameEntry|version-not-compared", st.where(),
                         "Rock::Rebuild::sameEntry accepts a slot for a loading entry on key equality alone (%s): slots of an older version of the same key are chained into "
                         "the entry; after a crash while a cached object was being replaced, the rebuilt entry serves the new head with the old tail" % E.key(x)[:80])

    ck.require_unreachable("L3.no-restart-while-loading", fl, ev_call(RB + "startNewEntry"), "startNewEntry", "state==leLoading")
    fl = ck.flow(uns, switch_assume=on_state(states["leEmpty"]))
    ck.sites(fl, ev_call(RB + "startNewEntry"), "startNewEntry under leEmpty", 1)
    ck.require_unreachable("L3.empty-starts", fl, ev_call(RB + "addSlotToEntry"), "addSlotToEntry", "state==leEmpty")
    sne = facts.fn(RB + "startNewEntry")
    fl = ck.flow(sne, markers={"primed": ev_call(RB + "primeNewEntry")})
    ck.require_fact("L3.start-needs-write-lock", fl, ev_call(RB + "primeNewEntry"), ck.m_result_of(sne, MAP + "openForWritingAt"), True,
                    "primeNewEntry()", why="(an entry stored by a live worker would be overwritten)")
    ck.require_passed("L3.start-needs-write-lock", fl, ev_call(RB + "addSlotToEntry"), "primed", "addSlotToEntry()")

    # ------------------------------------------------------------------ addSlotToEntry
    ck.rule("A1 addSlotToEntry: after any freeBadEntry() no path reaches mapSlot()/finalizeOrFree(); le.anchored(true) only with le.anchored() F; "
            "RESPONSE(second inode -> freeBadEntry), RESPONSE(importEntry() F -> freeBadEntry), RESPONSE(totalSize != swap_file_sz -> freeBadEntry), RESPONSE(le.size > totalSize -> freeBadEntry)")
    ase = facts.fn(RB + "addSlotToEntry")
    ck.rule("A3 addSlotToEntry compares the loaded size with a *current* total: every local that a branch condition compares with the loading entry's size, if it is a "
            "snapshot of anchor.basics.swap_file_sz, is taken after the last point where this function can change swap_file_sz (importEntry(), the assignment from "
            "header.entrySize) on every path to mapSlot()/finalizeOrFree(); a snapshot hoisted above the inode block is 0 while the inode slot itself is processed, "
            "so the overflow check is skipped for exactly that slot")
    is_sz = lambda t: t is not None and any(m.endswith("::swap_file_sz") for m in E.mentions(t))
    cmp_locals = set()
    for b in ase.blocks.values():
        t = b.get("term")
        if t and t.get("c") is not None:
            for leaf, _ in E.implied(t["c"], True) + E.implied(t["c"], False):
                if (LE + "size") in E.mentions(leaf):
                    cmp_locals |= {n["d"] for n in E.walk(leaf) if n.get("k") == "ref" and n.get("dk") == "local"}
    snaps = {ev["d"] for b in ase.blocks.values() for ev in b["ev"] if ev.get("e") == "decl" and is_sz(ev.get("init"))} & cmp_locals
    ck.need(cmp_locals, "C57: addSlotToEntry no longer compares the loaded size with a total")

    def track_fresh(ev, env, fs):
        if ev.get("e") == "decl" and ev.get("d") in cmp_locals:
            if is_sz(ev.get("init")):
                env["$fresh:" + ev["d"]] = 1
            else:
                env.pop("$fresh:" + ev["d"], None)
        writes = (ev.get("e") == "asg" and is_sz(ev.get("lhs"))) or (ev.get("e") == "call" and (
            E.strip(ev["x"]).get("f") == RB + "importEntry" or (E.strip(ev["x"]).get("f", "").endswith("operator=") and is_sz(E.strip(ev["x"]).get("o")))))
        if writes:
            for k in [k for k in env if k.startswith("$fresh:")]:
                del env[k]
    a3 = ck.flow(ase, on_event=track_fresh)
    for st in ck.sites(a3, ev_call({RB + "mapSlot", RB + "finalizeOrFree"}), "mapSlot|finalizeOrFree", 2):
        stale = sorted(n for n in snaps if st.env.get("$fresh:" + n) != 1)
        if not stale:
            ck.ok("A3.total-is-current", st.where(), "the total compared with le.size was read after the last possible change of swap_file_sz")
        else:
            ck.violation("A3.total-is-current", "A3|addSlotToEntry|stale-total|%s" % E.strip(st.ev["x"]).get("f", "").split("::")[-1], st.where(),
                         "addSlotToEntry reaches %s with `%s` read from swap_file_sz *before* importEntry()/the entrySize assignment could change it: for the inode "
                         "slot the overflow and completeness checks compare against a stale (possibly 0 = unknown) total" % (st.desc()[:40], ", ".join(stale)), a3.witness(st))
    need_locals(ck, ase, "le", "totalSize", "slotId", "header")
    bad = ev_call(RB + "freeBadEntry")
    fl = ck.flow(ase, markers={"bad": bad}, track_markers=["bad"])
    for s in ck.sites(fl, ev_call({RB + "mapSlot", RB + "finalizeOrFree"}), "mapSlot|finalizeOrFree", 2):
        if s.env.get("#bad") == 1:
            ck.violation("A1.bad-entry-not-mapped", "A1|addSlotToEntry|after-freeBadEntry|%s" % E.strip(s.ev["x"]).get("f", "").split("::")[-1], s.where(),
                         "addSlotToEntry: '%s' is reachable after freeBadEntry() (a rejected entry keeps growing / gets published)" % s.desc()[:80], fl.witness(s))
        else:
            ck.ok("A1.bad-entry-not-mapped", s.where(), "addSlotToEntry: %s not reachable after freeBadEntry()" % s.desc()[:60])
    flp = ck.flow(ase)
    ck.require_fact("A1.single-inode", flp, setter(LE + "anchored"), getter(LE + "anchored", "le"), False, "le.anchored(true)",
                    why="(a second inode slot would be merged into the entry)")
    tot = E.m_is_ref("totalSize")
    swapsz = E.M(lambda t: any(m.endswith("::swap_file_sz") for m in E.mentions(t)), "swap_file_sz")
    imported = result_of(ck, ase, RB + "importEntry")
    same_size = m_eq(tot, swapsz)
    over = E.m_cmp("<", tot, size)
    # the inode-conflict test is the le.anchored() evaluation made under (header.firstSlot == slotId); the earlier one only picks the chain head
    inode = m_eq(E.m_is_mem("Rock::DbCellHeader::firstSlot"), E.m_is_ref("slotId"))
    inner = [e for e in ck.trigger_edges(ase, getter(LE + "anchored", "le"), True)
             if any(n[0] == e[0] and any(f[0] == "A" and f[2] and inode(flp.trees[f[1]]) for f in fs) for n, fs in flp.IN.items())]
    ck.need(len(inner) == 1, "C57: the inode-conflict test (le.anchored() under firstSlot == slotId) was not found in addSlotToEntry")
    fr = ck.flow(ase, start=inner[0][2], markers={"R": bad})
    missed = [x for x in fr.find(lambda ev: ev.get("e") == "exit" and ev.get("kind") in ("ret", "fall")) if not x.passed("R")]
    if missed:
        ck.violation("A1.inode-conflict-freed", "A1|addSlotToEntry|response:freeBadEntry()|after:second-inode", missed[0].where(),
                     "addSlotToEntry: a second inode slot (le.anchored() true under firstSlot == slotId) does not lead to freeBadEntry() on all paths", fr.witness(missed[0]))
    else:
        ck.ok("A1.inode-conflict-freed", ase.where(ase.blocks[inner[0][0]]["term"].get("l")), "a second inode slot always leads to freeBadEntry()")
    ck.require_response("A1.bad-metainfo-freed", ase, imported, False, bad, "freeBadEntry()")
    ck.require_response("A1.size-mismatch-freed", ase, same_size, False, bad, "freeBadEntry()")
    ck.require_response("A1.overflow-freed", ase, over, True, bad, "freeBadEntry()", assume=[(E.m_cmp("<", E.m_const(0), tot), True)])   # size known

    ck.rule("A2 addSlotToEntry dominance: the size bookkeeping after the inode block (and so mapSlot) is reached only with not-an-inode-slot, or importEntry() T and "
            "(header.entrySize unknown | anchor size was unknown | totalSize == swap_file_sz); mapSlot() only with (totalSize > 0) F or (le.size > totalSize) F; "
            "finalizeOrFree() only with le.size == totalSize")
    join = lambda ev: ev.get("e") == "decl" and ev.get("d") == "totalSize" and swapsz(ev.get("init"))
    ck.require_any("A2.inode-metainfo-gate", ase, join, [(inode, False), (imported, True)], "totalSize = swap_file_sz",
                   why="(an entry whose metadata failed to parse would keep loading)")
    ck.require_any("A2.inode-size-gate", ase, join, [(inode, False), (tot, False), (E.M(lambda t: E.strip(t).get("k") != "bin", "plain") & swapsz, False), (same_size, True)],
                   "totalSize = swap_file_sz", why="(an inode slot whose entrySize contradicts the stored size would be accepted)")
    ck.require_any("A2.overflow-not-mapped", ase, ev_call(RB + "mapSlot"), [(E.m_cmp("<", E.m_const(0), tot), False), (over, False)], "mapSlot()",
                   why="(a chain longer than the entry size would be mapped)")
    ck.require_fact("A2.finalize-when-complete", flp, ev_call(RB + "finalizeOrFree"), m_eq(size, tot), True, "finalizeOrFree()",
                    why="(an entry still expecting slots would be finalized)")

    ck.rule("S0 a db slot is released once: in addSlotToEntry (where the new slot is chained to the entry first, so freeBadEntry() releases it together with the "
            "rest of the chain) and in useNewSlot, no path releases the slot being processed twice -- freeBadEntry() after chaining, freeUnusedSlot(slotId) and "
            "freeSlot(slotId) each count; freeSlot() asserts !freed(), so a second release aborts every later rebuild of that cache_dir")
    for fname in (RB + "addSlotToEntry", RB + "useNewSlot"):
        f0 = facts.fn(fname)
        sp = [p_["d"] for p_ in f0.params if "SlotId" in p_["t"] or p_["d"] == "slotId"]
        ck.need(len(sp) >= 1, "C57: %s lost its slot-id parameter" % fname)
        sp = sp[0]

        def releases(ev, env, fs, sp=sp):
            if ev.get("e") != "call":
                return
            x = E.strip(ev["x"])
            fn_ = x.get("f", "")
            if fn_ == RB + "chainSlots" and any(E.m_is_ref(sp)(a) for a in x.get("a", [])):
                env["$chained"] = 1
            n = 0
            if fn_ == RB + "freeBadEntry" and env.get("$chained") == 1:
                n = 1
            if fn_ in (RB + "freeUnusedSlot", RB + "freeSlot") and x.get("a") and E.m_is_ref(sp)(x["a"][0]):
                n = 1
            if n:
                env["$rel"] = min(2, env.get("$rel", 0) + 1)
        f0l = ck.flow(f0, on_event=releases)
        rel_sites = [st for st in f0l.sites if st.ev.get("e") == "call" and E.strip(st.ev["x"]).get("f") in (RB + "freeBadEntry", RB + "freeUnusedSlot", RB + "freeSlot")]
        ck.need(rel_sites, "C57: %s no longer releases slots" % fname)
        twice = [st for st in rel_sites if st.env.get("$rel", 0) >= 1 and (
            (E.strip(st.ev["x"]).get("f") == RB + "freeBadEntry" and st.env.get("$chained") == 1) or
            (E.strip(st.ev["x"]).get("f") != RB + "freeBadEntry" and E.strip(st.ev["x"]).get("a") and E.m_is_ref(sp)(E.strip(st.ev["x"])["a"][0])))]
        if not twice:
            ck.ok("S0.slot-released-once", f0.where(), "%s: no path releases the processed slot twice" % fname)
        for st in twice[:1]:
            ck.violation("S0.slot-released-once", "S0|%s|double-release" % fname, st.where(),
                         "%s can release slot `%s` a second time ('%s' after it was already released on this path): freeSlot() asserts !freed() and the rebuild aborts, "
                         "again on every restart" % (fname, sp, st.desc()[:60]), f0l.witness(st))

    # ------------------------------------------------------------------ slot flags
    ck.rule("S1 each slot is used once: mapSlot marks mapped only with mapped() F and freed() F; freeSlot marks freed only with freed() F; "
            "chainSlots links slot.more only with slot.more < 0; freeUnusedSlot frees only with mapped() F")
    ms = facts.fn(RB + "mapSlot")
    need_locals(ck, ms, "slot")
    fl = ck.flow(ms)
    for g in ("mapped", "freed"):
        ck.require_fact("S1.slot-once", fl, setter(LS + "mapped"), result_of(ck, ms, LS + g, "slot"), False, "slot.mapped(true)", why="(a slot would belong to two entries)")
    ck.require_passed("S1.slot-once", ck.flow(ms, markers={"m": setter(LS + "mapped")}), ev_call(MAP + "importSlice"), "m", "importSlice()")
    fs = facts.fn(RB + "freeSlot")
    need_locals(ck, fs, "slot")
    fl = ck.flow(fs, markers={"f": setter(LS + "freed")})
    ck.require_fact("S1.slot-once", fl, setter(LS + "freed"), result_of(ck, fs, LS + "freed", "slot"), False, "slot.freed(true)", why="(a slot would be pushed to the free list twice)")
    ck.require_passed("S1.slot-once", fl, ev_call("Ipc::Mem::PageStack::push"), "f", "freeSlots->push()")
    fus = facts.fn(RB + "freeUnusedSlot")
    need_locals(ck, fus, "slot")
    ck.require_fact("S1.slot-once", ck.flow(fus), ev_call(RB + "freeSlot"), result_of(ck, fus, LS + "mapped", "slot"), False, "freeSlot()", why="(a mapped slot would also be free space)")
    chains = facts.fns(RB + "chainSlots")
    ck.need(chains, "C57: chainSlots not found")
    for cs in chains:
        ck.require_fact("S1.chain-once", ck.flow(cs), ev_assign(LS + "more"), E.m_cmp("<", E.m_is_mem(LS + "more"), E.m_const(0)), True, "slot.more = from",
                        why="(re-linking a chained slot could make the loading chain cyclic)")
    ck.assume("DbCellHeader::sane() body (link/size ranges) is not analysed (header not in the CFG set); termination and exception (Must) unwinding "
              "through finalizeOrFree's catch are not decided; only the gates, not the value flow of sizes, are checked")
