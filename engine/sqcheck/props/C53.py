"""C53 Shared page allocator never double-allocates or loses pages: atomic discipline of Ipc::Mem::IdSet/PageStack (DESIGN.md 5/C53)."""
from .. import expr as E
from ..flow import ev_call, ev_return, ev_exit, ev_any

IS = "Ipc::Mem::IdSet::"
PS = "Ipc::Mem::PageStack::"
ATOMIC_OK = {"fetch_add", "fetch_or", "fetch_sub", "fetch_and", "compare_exchange_weak", "compare_exchange_strong", "load"}


def run(ck):
    facts = ck.facts(["src/ipc/mem/PageStack.cc"], whole=True)

    ck.rule("P1 WHO: the non-atomic alias IdSet::valueAddress() is used only by the single-process initialisation helpers, themselves reachable only "
            "from makeFullBeforeSharing(); nodeAt() is used only by the four atomic node operations and valueAddress()")
    ck.who_calls("P1.nonatomic-alias", facts, IS + "valueAddress", {IS + "fillAllNodes": "pre-sharing fill", IS + "leafTruncate": "pre-sharing truncate",
                                                                   IS + "innerTruncate": "pre-sharing truncate", IS + "truncateExtras": "pre-sharing truncate"}, min_callers=2)
    for helper, callers in [("fillAllNodes", ["makeFullBeforeSharing"]), ("truncateExtras", ["makeFullBeforeSharing"]),
                            ("leafTruncate", ["truncateExtras"]), ("innerTruncate", ["truncateExtras"])]:
        ck.who_calls("P1.init-only", facts, IS + helper, {IS + c: "initialisation chain" for c in callers}, min_callers=1)
    ck.who_calls("P1.init-only", facts, IS + "makeFullBeforeSharing", {PS + "PageStack": "constructor, before the segment is shared"}, min_callers=1)
    ck.who_calls("P1.node-access", facts, IS + "nodeAt", {IS + n: "atomic node operation" for n in ("innerPush", "innerPop", "leafPush", "leafPop", "valueAddress")}, min_callers=4)

    ck.rule("P2 in innerPush/innerPop/leafPush/leafPop every operation on a tree node is an atomic RMW or load (no plain store/assignment)")
    for name in ("innerPush", "innerPop", "leafPush", "leafPop"):
        fn = facts.fn(IS + name)
        node_locals = {n for n, ds in ck.local_defs(fn).items() if any(IS + "nodeAt" in E.mentions(d) for d in ds) and n in ("node",)}
        n = 0
        for b in fn.blocks.values():
            for ev in b["ev"]:
                if ev.get("e") != "call":
                    continue
                x = E.strip(ev["x"])
                o = E.strip(x.get("o")) if "o" in x else None
                if not isinstance(o, dict):
                    continue
                on_node = (o.get("k") == "call" and o.get("f") == IS + "nodeAt") or (o.get("k") == "ref" and o.get("d") in node_locals)
                if not on_node:
                    continue
                n += 1
                op = x.get("f", "").split("::")[-1]
                if op in ATOMIC_OK:
                    ck.ok("P2.atomic-node-ops", fn.where(ev["l"]), "%s touches the node through %s" % (name, op))
                else:
                    ck.violation("P2.atomic-node-ops", "P2|%s|%s" % (name, op), fn.where(ev["l"]), "%s modifies/reads a shared tree node through non-RMW '%s'" % (name, op))
        ck.need(n >= 1, "C53: no node operation found in %s" % name)

    ck.rule("P3 CAS loops (innerPop, leafPop): the expected argument is the local that was loaded; after every failed compare_exchange the desired "
            "value is recomputed from it before the next attempt; the result is derived from the value the successful CAS saw")
    for name in ("innerPop", "leafPop"):
        fn = facts.fn(IS + name)
        cas = E.M(lambda t: E.strip(t).get("k") == "call" and E.strip(t).get("f", "").split("::")[-1] in ("compare_exchange_weak", "compare_exchange_strong"), "compare_exchange")
        sites = [ev for b in fn.blocks.values() for ev in b["ev"] if ev.get("e") == "call" and cas(ev["x"])]
        # check-then-act: a value obtained by a separate load() must not steer a later fetch_*() on the same node
        def on_node(ev_, ops):
            if ev_.get("e") != "call":
                return False
            x_ = E.strip(ev_["x"])
            o_ = E.strip(x_.get("o")) if "o" in x_ else None
            return isinstance(o_, dict) and x_.get("f", "").split("::")[-1] in ops and \
                ((o_.get("k") == "call" and o_.get("f") == IS + "nodeAt") or (o_.get("k") == "ref" and o_.get("d") == "node"))
        evs = [ev for b in fn.blocks.values() for ev in b["ev"]]
        loads = [ev for ev in evs if on_node(ev, {"load"})] + [ev for ev in evs if ev.get("e") == "call" and E.strip(ev["x"]).get("f", "").split("::")[-1].startswith("operator ") and on_node(ev, {E.strip(ev["x"])["f"].split("::")[-1]})]
        rmws = [ev for ev in evs if on_node(ev, {"fetch_add", "fetch_sub", "fetch_or", "fetch_and", "fetch_xor", "exchange", "store", "operator="})]
        loaded = {n for n, ds in ck.local_defs(fn).items() if any(c.get("f", "").split("::")[-1] == "load" for d in ds for c in E.calls_in(d))}
        split = [ev for ev in rmws if loaded & ck.closure_mentions(fn, E.strip(ev["x"]))]
        if split:
            ck.violation("P3.check-then-act", "P3|%s|load-then-%s" % (name, E.strip(split[0]["x"])["f"].split("::")[-1]), fn.where(split[0]["l"]),
                         "%s decides from a separately load()ed snapshot (%s) and then modifies the node with %s: two poppers can pick the same id between the load and the update "
                         "(the choice must be made inside a compare_exchange loop)" % (name, sorted(loaded), E.strip(split[0]["x"])["f"].split("::")[-1]))
            continue
        ck.need(len(sites) == 1, "C53: expected one CAS in %s" % name)
        x = E.strip(sites[0]["x"])
        if E.m_is_ref("oldValue")(x["a"][0]) and "newValue" in E.mentions(x["a"][1]):
            ck.ok("P3.cas-shape", fn.where(sites[0]["l"]), "%s: CAS(expected=oldValue, desired from newValue)" % name)
        else:
            ck.violation("P3.cas-shape", "P3|%s|cas-args" % name, fn.where(sites[0]["l"]), "%s: CAS arguments are %s" % (name, [E.key(a) for a in x["a"]]))
        def recompute(ev):
            if ev.get("e") == "asg":
                return E.m_is_ref("newValue")(ev.get("lhs")) and "oldValue" in E.mentions(ev.get("rhs"))
            if ev.get("e") == "call":
                x_ = E.strip(ev["x"])
                return x_.get("f", "").endswith("operator=") and E.m_is_ref("newValue")(x_.get("o")) and "oldValue" in E.mentions(x_)
            return False
        ck.require_response("P3.cas-recompute", fn, cas, False, recompute, "newValue = f(oldValue)", term_kinds=("DoStmt", "WhileStmt", "ForStmt"),
                            why="(a retry would publish a value computed from a stale snapshot)")
    lp = facts.fn(IS + "leafPop")
    rets = [ev for b in lp.blocks.values() for ev in b["ev"] if ev.get("e") == "ret"]
    if rets and all("oldValue" in E.mentions(r.get("x")) for r in rets):
        ck.ok("P3.result-from-cas", lp.where(), "leafPop returns an id computed from the value the CAS replaced")
    else:
        ck.violation("P3.result-from-cas", "P3|leafPop|result", lp.where(), "leafPop's result no longer derives from oldValue")

    ck.rule("P4 ORDER: IdSet::push sets the leaf bit before any inner counter; IdSet::pop takes inner counters before the leaf and fails only at the root; "
            "PageStack::pop decrements size_ only after a successful ids_.pop(); PageStack::push increments size_ before ids_.push()")
    push = facts.fn(IS + "push")
    fl = ck.flow(push, markers={"leaf": ev_call(IS + "leafPush")})
    ck.require_passed("P4.push-order", fl, ev_call(IS + "innerPush"), "leaf", "innerPush", why="(a counter would promise an id whose bit is not yet set)")
    pop = facts.fn(IS + "pop")
    fl = ck.flow(pop, markers={"inner": ev_call(IS + "innerPop"), "leaf": ev_call(IS + "leafPop")})
    ck.require_passed("P4.pop-order", fl, ev_call(IS + "leafPop"), "inner", "leafPop")
    ck.require_passed("P4.pop-order", fl, ev_return(E.m_const(1)), "leaf", "return true")
    ck.require_fact("P4.pop-empty", fl, ev_return(E.m_const(0)), E.m_cmp("==", E.m_is_ref("directionFromRoot"), E.m_any()), True, "return false")
    pspop = facts.fn(PS + "pop")
    dec = lambda ev: ev.get("e") == "call" and E.strip(ev["x"]).get("f", "").endswith("operator--") and E.m_is_mem("size_")(E.strip(ev["x"]).get("o"))
    inc = lambda ev: ev.get("e") == "call" and E.strip(ev["x"]).get("f", "").endswith("operator++") and E.m_is_mem("size_")(E.strip(ev["x"]).get("o"))
    fl = ck.flow(pspop)
    ck.require_fact("P4.size-after-pop", fl, dec, E.m_calls(IS + "pop"), True, "--size_", why="(size_ could underflow / count a page not obtained)")
    pspush = facts.fn(PS + "push")
    fl = ck.flow(pspush, markers={"inc": inc})
    ck.require_passed("P4.size-before-push", fl, ev_call(IS + "push"), "inc", "ids_.push()")
    ck.assume("linearizability under all interleavings is not decided (needs model checking)")
