"""C06 CONNECT tunnels relay both directions unchanged: wiring of the TunnelStateData copy loops (DESIGN.md 5/C06)."""
from .. import expr as E
from ..flow import ev_call, ev_return, ev_assign, ev_any

T = "TunnelStateData::"
C = T + "Connection::"
SRV, CLI = T + "server", T + "client"
# (from, to, completion): the two directions, mirrored
COPY_DIRS = {(SRV, CLI, T + "WriteClientDone"): "server -> client", (CLI, SRV, T + "WriteServerDone"): "client -> server"}
READ_DIRS = {(SRV, CLI, T + "ReadServer"): "server -> client", (CLI, SRV, T + "ReadClient"): "client -> server"}


def side(t):
    """TunnelStateData::server / ::client if t designates that member (of this or of a tunnel pointer), else None"""
    t = E.strip(t)
    return t.get("m") if isinstance(t, dict) and t.get("k") == "mem" and t.get("m") in (SRV, CLI) else None


def fref(t):
    t = E.strip(t)
    if isinstance(t, dict) and t.get("k") == "un" and t.get("op") == "&":
        t = E.strip(t.get("e"))
    return t.get("d") if isinstance(t, dict) and t.get("k") == "ref" and t.get("dk") == "func" else None


def run(ck):
    facts = ck.facts(["src/tunnel.cc"], whole=True)
    tun = [f for f in facts.all_fns() if f.file.endswith("src/tunnel.cc")]

    ck.rule("W1 ARGS/SIBLING: every call of TunnelStateData::copy(len, from, to, cb) has (from,to,cb) in {(server,client,WriteClientDone),(client,server,WriteServerDone)} and, where the "
            "caller consulted keepGoingAfterRead(n, .., from, to), the same n/from/to; every copyRead(from,to,cb) in {(server,client,ReadServer),(client,server,ReadClient)}; "
            "copy() passes from.buf, its len parameter and a callback built from its completion parameter to to.write()")
    ncopy = nread = 0
    for f in tun:
        fl = None
        for b in f.blocks.values():
            for ev in b["ev"]:
                if ev_call(T + "copy")(ev):
                    ncopy += 1
                    a = E.strip(ev["x"])["a"]
                    trip = (side(a[1]), side(a[2]), fref(a[3]))
                    if trip in COPY_DIRS:
                        ck.ok("W1.copy-args", f.where(ev["l"]), "%s: copy() wired %s with %s" % (f.name, COPY_DIRS[trip], trip[2]))
                    else:
                        ck.violation("W1.copy-args", "W1|copy-args|in:%s" % f.name, f.where(ev["l"]),
                                     "%s: copy(%s) is not one of the two mirrored directions (bytes would be written to the wrong peer or completed by the wrong handler)"
                                     % (f.name, ", ".join(E.key(x) for x in a)))
                    fl = fl or ck.flow(f)
                    kg = [s for s in fl.find(ev_call(T + "keepGoingAfterRead"))]
                    for s in kg:
                        ka = E.strip(s.ev["x"])["a"]
                        if (E.key(ka[0]), side(ka[3]), side(ka[4])) == (E.key(a[0]), trip[0], trip[1]):
                            ck.ok("W1.copy-args", s.where(), "%s: copy() forwards exactly the %s bytes that keepGoingAfterRead() accepted" % (f.name, E.key(a[0])))
                            break
                    else:
                        if kg:
                            ck.violation("W1.copy-args", "W1|copy-len|in:%s" % f.name, f.where(ev["l"]), "%s: copy(%s,..) does not use the length/sides checked by keepGoingAfterRead()" % (f.name, E.key(a[0])))
                if ev_call(T + "copyRead")(ev):
                    nread += 1
                    a = E.strip(ev["x"])["a"]
                    trip = (side(a[0]), side(a[1]), fref(a[2]))
                    if trip in READ_DIRS:
                        ck.ok("W1.read-args", f.where(ev["l"]), "%s: copyRead() wired %s with %s" % (f.name, READ_DIRS[trip], trip[2]))
                    else:
                        ck.violation("W1.read-args", "W1|read-args|in:%s" % f.name, f.where(ev["l"]), "%s: copyRead(%s) is not one of the two mirrored directions" % (f.name, ", ".join(E.key(x) for x in a)))
    ck.need(ncopy >= 5 and nread >= 4, "C06: expected >= 5 copy() and >= 4 copyRead() calls in tunnel.cc, found %d/%d" % (ncopy, nread))
    cp = facts.fn(T + "copy")
    ck.need(len(cp.params) == 4, "C06: TunnelStateData::copy signature changed")
    plen, pfrom, pto, pcb = [p["d"] for p in cp.params]
    wsites = ck.sites(ck.flow(cp), ev_call(C + "write"), "to.write()", 0)
    if not wsites:
        ck.violation("W1.copy-body", "W1|copy-body|no-Connection::write", cp.where(cp.line), "copy() no longer hands the relayed bytes to Connection::write() of `to` (the write would not be recorded "
                     "as that side's pending writer, so finishWritingAndDelete() may close the side while relayed bytes are still unwritten)")
    for s in wsites:
        x = E.strip(s.ev["x"])
        a = x["a"]
        a0 = E.strip(a[0])
        cbdefs = ck.local_defs(cp).get(E.strip(a[2]).get("d"), [])
        good = (E.m_is_ref(pto)(x["o"]) and a0.get("k") == "mem" and a0["m"] == C + "buf" and E.m_is_ref(pfrom)(a0["b"]) and E.m_is_ref(plen)(a[1])
                and len(cbdefs) == 1 and pcb in E.mentions(cbdefs[0]) and "this" in E.key(cbdefs[0]))
        if good:
            ck.ok("W1.copy-body", s.where(), "copy(): to.write(from.buf, len, <call of completion>)")
        else:
            ck.violation("W1.copy-body", "W1|copy-body", s.where(), "copy() no longer writes exactly from.buf/len to `to` with its completion: %s" % E.key(x)[:160])

    ck.rule("W2 WHO: Connection::write is called only by copy() and the CONNECT-200 writer notePeerReadyToShovel; Comm::Write in tunnel.cc only by Connection::write; "
            "copyRead only by copy{Client,Server}Bytes and the delayed-read events; copyClientBytes only after the to-server write completed (writeServerDone), at start-up or "
            "a delayed read, copyServerBytes symmetrically; comm_read in copyRead only with from.len == 0 established and reads into from.buf of from.conn")
    ck.who_calls("W2.who-writes", facts, C + "write", {T + "copy": "the relay write (W1)", T + "notePeerReadyToShovel": "Squid's own 200 Connection established, before shoveling starts"},
                 min_callers=1, why="(bytes not coming from the peer would be inserted into the tunnel)")
    for f in tun:
        for b in f.blocks.values():
            for ev in b["ev"]:
                if ev_call("Comm::Write")(ev):
                    if f.name == C + "write":
                        ck.ok("W2.who-writes", f.where(ev["l"]), "Comm::Write only inside Connection::write")
                    else:
                        ck.violation("W2.who-writes", "W2|Comm::Write|in:%s" % f.name, f.where(ev["l"]), "%s writes to a tunnel socket directly" % f.name)
    ck.who_calls("W2.who-reads", facts, T + "copyRead", {T + "copyClientBytes": "no pre-read bytes left", T + "copyServerBytes": "no pre-read bytes left",
                                                        "tunnelDelayedClientRead": "delayed retry", "tunnelDelayedServerRead": "delayed retry"}, min_callers=4)
    ck.who_calls("W2.who-refills", facts, T + "copyClientBytes", {T + "writeServerDone": "previous client bytes were written to the server", "tunnelStartShoveling": "start-up"}, min_callers=1,
                 why="(the client buffer would be refilled while its write is pending)")
    ck.who_calls("W2.who-refills", facts, T + "copyServerBytes", {T + "writeClientDone": "previous server bytes were written to the client", "tunnelStartShoveling": "start-up"}, min_callers=1,
                 why="(the server buffer would be refilled while its write is pending)")
    cr = facts.fn(T + "copyRead")
    rfrom = cr.params[0]["d"]
    lenof = lambda who: E.M(lambda t: E.strip(t).get("k") == "mem" and E.strip(t)["m"] == C + "len" and E.m_is_ref(who)(E.strip(t)["b"]), "%s.len" % who)
    for s in ck.require_fact("W2.read-into-empty", ck.flow(cr), ev_call("comm_read"), lenof(rfrom), False, "comm_read()", why="(unsent bytes in the buffer would be overwritten)"):
        a = E.strip(s.ev["x"])["a"]
        if E.key(a[0]) == "%s.conn" % rfrom and E.key(a[1]) == "%s.buf" % rfrom:
            ck.ok("W2.read-into-empty", s.where(), "copyRead reads from.conn into from.buf")
        else:
            ck.violation("W2.read-into-empty", "W2|copyRead|comm_read-args", s.where(), "copyRead reads %s into %s" % (E.key(a[0]), E.key(a[1])))

    ck.rule("W3 BALANCE/ORDER: Connection::dataSent zeroes len only with amount == len established; writeServerDone calls client.dataSent(len) before copyClientBytes(), "
            "writeClientDone calls server.dataSent(len) before copyServerBytes(); Connection::len is written only by the ctor, bytesIn (+=), dataSent (= 0) and the pre-shoveling reset in tunnelEstablishmentDone")
    ds = facts.fn(C + "dataSent")
    amount = ds.params[0]["d"]
    ck.require_fact("W3.all-sent", ck.flow(ds), ev_assign(C + "len", E.m_const(0)), E.m_cmp("==", E.m_is_ref(amount), E.m_is_mem(C + "len")) | E.m_cmp("==", E.m_is_mem(C + "len"), E.m_is_ref(amount)),
                    True, "len = 0", why="(a partial write would be treated as complete: bytes would be dropped)")
    for fname, buf, refill in ((T + "writeServerDone", CLI, T + "copyClientBytes"), (T + "writeClientDone", SRV, T + "copyServerBytes")):
        fn = facts.fn(fname)
        wl = fn.params[1]["d"]
        sent = ev_call(C + "dataSent", arg={0: E.m_is_ref(wl)}, obj=E.M(lambda t, buf=buf: side(t) == buf, buf))
        fl = ck.flow(fn, markers={"sent": sent})
        ck.require_passed("W3.sent-before-refill", fl, ev_call(refill), "sent", "%s()" % refill.split("::")[-1],
                          why="(the buffer would be refilled without accounting the finished write)")
        ck.need(len(fl.find(ev_call(C + "dataSent"))) == len(fl.find(sent)), "C06: %s accounts a write on the wrong buffer" % fname)
    ck.who_writes("W3.who-writes-len", facts, C + "len", {C + "Connection": "starts empty", C + "bytesIn": "bytes read into buf", C + "dataSent": "all of them written (W3)",
                                                              T + "tunnelEstablishmentDone": "reset after the peer CONNECT exchange, before shoveling starts (leftovers go to preReadServerData)"}, min_writers=4)

    ck.rule("W4 UNREACH keepGoingAfterRead: `return true` only with errcode false, len != 0 and IsConnOpen(to.conn) established; on the zero-length (EOF) path to.conn->close() only with "
            "from.len == 0 established (the peer is not closed while bytes of the closing side are still queued); every copy() caller that read data calls it only with keepGoingAfterRead() true")
    kg = facts.fn(T + "keepGoingAfterRead")
    klen, kerr, _, kfrom, kto = [p["d"] for p in kg.params]
    fl = ck.flow(kg)
    rt = ev_return(E.m_const(1))
    ck.require_fact("W4.keep-going", fl, rt, E.m_is_ref(kerr), False, "return true", why="(data of a failed read would be relayed)")
    ck.require_fact("W4.keep-going", fl, rt, E.m_is_ref(klen), True, "return true", why="(an EOF would be relayed as data)")
    open_to = E.m_calls("Comm::IsConnOpen") & E.M(lambda t: E.key(E.strip(t)["a"][0]) == "%s.conn" % kto, "of to.conn")
    ck.require_fact("W4.keep-going", fl, rt, open_to, True, "return true", why="(bytes would be queued to a closed peer)")
    close_to = lambda ev: ev.get("e") == "call" and E.strip(ev["x"]).get("f") == "Comm::Connection::close" and ("%s.conn" % kto) in E.key(E.strip(ev["x"]).get("o"))
    ck.require_fact("W4.half-close", fl, close_to, lenof(kfrom), False, "to.conn->close()", why="(the other side would be closed before the bytes already read from the closing side were delivered)")
    for name in (T + "readServer", T + "readClient", T + "copyClientBytes", T + "copyServerBytes"):
        fn = facts.fn(name)
        ck.require_fact("W4.copy-only-if-keep-going", ck.flow(fn), ev_call(T + "copy"), E.m_calls(T + "keepGoingAfterRead"), True, "copy()")

    ck.rule("W5 half-close: finishWritingAndDelete closes the remaining connection only with remainingConnection.writer established null (a pending relay write finishes first); "
            "serverClosed() passes client and clientClosed() passes server")
    fw = facts.fn(T + "finishWritingAndDelete")
    rem = fw.params[0]["d"]
    ck.require_fact("W5.finish-writing", ck.flow(fw), lambda ev: ev.get("e") == "call" and E.strip(ev["x"]).get("f") == "Comm::Connection::close",
                    E.M(lambda t: E.strip(t).get("k") == "mem" and E.strip(t)["m"] == C + "writer" and E.m_is_ref(rem)(E.strip(t)["b"]), "remainingConnection.writer"), False,
                    "remainingConnection.conn->close()", why="(bytes already accepted from the closed side would be cut off)")
    for fname, closed, other in ((T + "serverClosed", SRV, CLI), (T + "clientClosed", CLI, SRV)):
        fn = facts.fn(fname)
        fl = ck.flow(fn, markers={"noted": ev_call(C + "noteClosure", obj=E.M(lambda t, closed=closed: side(t) == closed, closed))})
        for s in ck.require_passed("W5.other-side", fl, ev_call(T + "finishWritingAndDelete"), "noted", "finishWritingAndDelete()"):
            if side(E.strip(s.ev["x"])["a"][0]) == other:
                ck.ok("W5.other-side", s.where(), "%s lets the %s side finish writing" % (fname, other.split("::")[-1]))
            else:
                ck.violation("W5.other-side", "W5|%s|wrong-side" % fname, s.where(), "%s passes %s to finishWritingAndDelete" % (fname, E.key(E.strip(s.ev["x"])["a"][0])))
    ck.rule("W6 hand-over: in clientProcessRequest the request-body machinery (ConnStateData::expectRequestBody / handleRequestBodyData, which move bytes out of inBuf "
            "into a BodyPipe the tunnel never reads) is reached only on paths where request->method == METHOD_CONNECT evaluated false; paths where it evaluated true pass "
            "context->mayUseConnection(true) and are pruned at `!context->mayUseConnection()` (setter followed by getter on the same stream); on the CONNECT path "
            "conn->flags.readMore is cleared so that bytes after the CONNECT header stay in inBuf for tunnelStartShoveling()")
    cs = ck.facts(["src/client_side.cc"], whole=False)
    cpr = cs.fn("clientProcessRequest")
    mcode = cs.enum("Http::_method_t")["METHOD_CONNECT"]
    is_connect = E.m_cmp("==", E.m_is_mem("HttpRequest::method"), E.m_const(mcode))
    muc_get = E.M(lambda t: E.strip(t).get("k") == "call" and E.strip(t).get("f") == "Http::Stream::mayUseConnection" and not E.strip(t).get("a"), "mayUseConnection()")
    muc_set = ev_call("Http::Stream::mayUseConnection", arg={0: E.m_const(1)}, nargs=1)

    def prune(b, lab, imp, env, fs):
        if env.get("#muc") == 1 and any(muc_get(t) and v is False for t, v in imp):
            return False
        return True
    body = ev_call({"ConnStateData::expectRequestBody", "ConnStateData::handleRequestBodyData"})
    ck.require_any("W6.connect-skips-body", cpr, body, [(is_connect, False)], "request-body setup", min_sites=2,
                   why="(a CONNECT with Content-Length/chunked framing would have its early tunnel bytes moved into a BodyPipe nobody reads: the server misses them)",
                   markers={"muc": muc_set}, track_markers=["muc"], on_edge=prune)
    ck.require_response("W6.connect-hands-over", cpr, is_connect, True, muc_set, "mayUseConnection(true)")
    ck.require_response("W6.connect-hands-over", cpr, is_connect, True, ev_assign("ConnStateData::(anonymous struct)::readMore", E.m_const(0)), "flags.readMore = false")

    ck.rule("W7 mirrored half-close in the write-completion handlers: writeClientDone (a write *to the client* finished) closes client.conn, after the length/len==0 "
            "cases, only with Comm::IsConnOpen(server.conn) established false, and writeServerDone closes server.conn only with IsConnOpen(client.conn) false: the side "
            "tested is always the *other* side. finishWritingAndDelete() relies on exactly this callback to close the remaining side once its pending write is done; a "
            "handler that tests its own side keeps copying from a closed peer (assertion in comm_read)")
    def conn_side(t):
        t = E.strip(t)
        while isinstance(t, dict) and t.get("k") == "call" and t.get("f", "").split("::")[-1] in ("operator->", "operator*", "getRaw"):
            t = E.strip(t.get("o"))
        if isinstance(t, dict) and t.get("k") == "mem" and t.get("m") == C + "conn":
            return side(t.get("b"))
        return None
    nclose = 0
    for fname, own, other in ((T + "writeClientDone", CLI, SRV), (T + "writeServerDone", SRV, CLI)):
        f = facts.fn(fname)
        fl7 = ck.flow(f)
        is_open = lambda which: E.M(lambda t, which=which: E.strip(t).get("k") == "call" and E.strip(t).get("f") == "Comm::IsConnOpen" and conn_side(E.strip(t)["a"][0]) == which, "IsConnOpen(%s.conn)" % which.split("::")[-1])
        for st in fl7.find(lambda ev: ev.get("e") == "call" and E.strip(ev["x"]).get("f") == "Comm::Connection::close"):
            closed = conn_side(E.strip(st.ev["x"]).get("o"))
            if closed is None:
                continue
            nclose += 1
            lenp = f.params[1]["d"] if len(f.params) > 1 else None
            eof_case = lenp and st.has(E.m_is_ref(lenp), False)
            if closed != own:
                ck.violation("W7.close-own-side-when-other-gone", "W7|%s|closes-other-side" % fname, st.where(), "%s closes %s" % (fname, closed))
            elif eof_case or st.has(is_open(other), False):
                ck.ok("W7.close-own-side-when-other-gone", st.where(), "%s closes its own side on EOF or with the other side established gone" % fname.split("::")[-1])
            else:
                ck.violation("W7.close-own-side-when-other-gone", "W7|%s|wrong-side-tested" % fname, st.where(),
                             "%s closes %s.conn without IsConnOpen(%s.conn) established false (facts: %s): when the other side is gone this handler keeps relaying"
                             % (fname.split("::")[-1], own.split("::")[-1], other.split("::")[-1], ", ".join(st.fact_keys())[:160]), fl7.witness(st))
    ck.need(nclose >= 4, "C06: expected the four close() sites of writeClientDone/writeServerDone, found %d" % nclose)

    ck.rule("W8 idle timers of a tunnel (label consistency in keepGoingAfterRead): activity in one direction refreshes the read timeout of *both* connections "
            "(bug 3659: very long one-way transfers): each commSetConnTimeout(X.conn, ...) is made under Comm::IsConnOpen(X.conn) for that same X, and both the "
            "source and the destination parameter get one. If the destination's refresh lands on the source again, a silent receiver's timer runs out in the "
            "middle of a long transfer and tunnelTimeout tears the tunnel down")
    kg = facts.fn("TunnelStateData::keepGoingAfterRead")
    kfl = ck.flow(kg)
    conns = [p_["d"] for p_ in kg.params if "Connection" in (p_.get("t") or "")]
    ck.need(len(conns) == 2, "C06: keepGoingAfterRead no longer takes the two tunnel connections")
    refreshed = set()
    conn_of = lambda t: sorted({n["d"] for n in E.walk(t) if n.get("k") == "ref" and n.get("d") in conns})
    for st in ck.sites(kfl, ev_call("commSetConnTimeout"), "commSetConnTimeout()", 2):
        who = conn_of(E.strip(st.ev["x"])["a"][0])
        ck.need(len(who) == 1, "C06: commSetConnTimeout() in keepGoingAfterRead is not given one of the two connections")
        guard = E.M(lambda t, who=who: E.strip(t).get("k") == "call" and E.strip(t).get("f") == "Comm::IsConnOpen" and conn_of(t) == who, "Comm::IsConnOpen(%s.conn)" % who[0])
        if st.has(guard, True):
            refreshed.add(who[0])
            ck.ok("W8.both-timers-refreshed", st.where(), "keepGoingAfterRead: timeout of %s.conn refreshed under IsConnOpen(%s.conn)" % (who[0], who[0]))
        else:
            ck.violation("W8.both-timers-refreshed", "W8|keepGoingAfterRead|timeout-on|%s" % who[0], st.where(), "keepGoingAfterRead refreshes the timeout of %s.conn where only "
                         "the other connection was tested open (facts: %s): the connection this block is about keeps its old deadline" % (who[0], ", ".join(st.fact_keys())[:120]), kfl.witness(st))
    if refreshed != set(conns):
        ck.violation("W8.both-timers-refreshed", "W8|keepGoingAfterRead|not-both", kg.where(), "keepGoingAfterRead refreshes the read timeout of %s only, not of both %s" % (sorted(refreshed), conns))
    else:
        ck.ok("W8.both-timers-refreshed", kg.where(), "keepGoingAfterRead refreshes both %s" % conns)

    ck.assume("payload equality and delivery under arbitrary segmentation are not decided; Comm::Write/comm_read deliver what they are given; "
              "delay pools' bytesWanted() <= its upper bound; TLS-bumped and pre-read (preReadClientData/ServerData) byte accounting is only checked through W1/W4")
