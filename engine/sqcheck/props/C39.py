"""C39 ICP/HTCP listeners tolerate arbitrary datagrams: bounded-read clause (DESIGN.md 5/C39)."""
from .. import expr as E
from ..flow import ev_call, ev_return, ev_any

PEND = "$pend"      # net (buf advanced) - (sz shrunk), as a sorted tuple of (amount-key, count)
HAVE2 = "$have2"    # a successful parseUint16(buf, sz, ...) has not been consumed by `sz -= 2` yet


def amount(t):
    c = E.const(t)
    return str(c) if c is not None else E.key(t)


def lockstep(ck, fn, rule):
    """(buf, sz) shrinking-window decoder: buf and sz move in lockstep, every move is covered by a guard"""
    def adjust(env, key, d):
        pend = dict(env.get(PEND, ()))
        pend[key] = pend.get(key, 0) + d
        if pend[key] == 0:
            del pend[key]
        env[PEND] = tuple(sorted(pend.items()))

    def on_event(ev, env, facts):
        if ev.get("e") != "asg":
            return
        if E.m_is_ref("buf")(ev.get("lhs")) and ev.get("op") == "+=":
            adjust(env, amount(ev.get("rhs")), +1)
        elif E.m_is_ref("sz")(ev.get("lhs")) and ev.get("op") == "-=":
            adjust(env, amount(ev.get("rhs")), -1)
            if amount(ev.get("rhs")) == "2":
                env[HAVE2] = env.get(HAVE2, 0) - 1

    def on_edge(b, lab, imp, env, facts):
        for t, v in imp:
            if v is True and E.m_calls("parseUint16")(t) and E.m_is_ref("buf")(E.strip(t)["a"][0]) and E.m_is_ref("sz")(E.strip(t)["a"][1]):
                env[HAVE2] = 1
        return True

    fl = ck.flow(fn, on_event=on_event, on_edge=on_edge)
    moves = [s for s in fl.sites if s.ev.get("e") == "asg" and ((E.m_is_ref("buf")(s.ev.get("lhs")) and s.ev.get("op") == "+=") or (E.m_is_ref("sz")(s.ev.get("lhs")) and s.ev.get("op") == "-="))]
    ck.need(len(moves) >= 6, "C39: window moves not found in %s" % fn.name)
    for s in moves:
        a = amount(s.ev.get("rhs"))
        is_sz = E.m_is_ref("sz")(s.ev.get("lhs"))
        if a == "2":
            if is_sz:
                if s.env.get(HAVE2) == 1:
                    ck.ok(rule + ".length-field", s.where(), "%s: 'sz -= 2' consumes a length field just validated by parseUint16(buf, sz, ...)" % fn.name)
                else:
                    ck.violation(rule + ".length-field", "%s|%s|sz-=2|no-parseUint16" % (rule, fn.name), s.where(),
                                 "%s: 'sz -= 2' without a fresh successful parseUint16(buf, sz, ...) on this path" % fn.name, fl.witness(s))
        else:
            bound = E.M(lambda t, a=a: E.strip(t).get("k") == "bin" and E.strip(t).get("op") == "<" and E.m_is_ref("sz")(E.strip(t)["l"]) and amount(E.strip(t)["r"]) == a, "(sz < %s)" % a)
            pend = dict(s.env.get(PEND, ()))
            # the first move of a pair needs the guard; the second one is the matching move (net returns to 0)
            first = pend.get(a, 0) == 0
            if (not first) or s.has(bound, False):
                ck.ok(rule + ".field-fits", s.where(), "%s: '%s' moves by %s only after %s <= sz" % (fn.name, s.desc(), a, a))
            else:
                ck.violation(rule + ".field-fits", "%s|%s|move-by-%s|unguarded" % (rule, fn.name, a), s.where(),
                             "%s: '%s' is reachable without (%s > sz) having been rejected (facts %s)" % (fn.name, s.desc(), a, s.fact_keys()), fl.witness(s))
    good_ret = lambda ev: ev.get("e") == "ret" and E.key(ev.get("x")) not in ("nil", "null") and E.strip(ev.get("x") or {}).get("k") != "null"
    rets = [s for s in fl.find(good_ret)]
    ck.need(rets, "C39: success return not found in %s" % fn.name)
    for s in rets:
        if not s.env.get(PEND):
            ck.ok(rule + ".lockstep", s.where(), "%s: on success buf and sz moved by the same amounts" % fn.name)
        else:
            ck.violation(rule + ".lockstep", "%s|%s|lockstep" % (rule, fn.name), s.where(),
                         "%s: buf and sz are out of step at the successful return (net %s): later fields are read against a wrong remaining size" % (fn.name, s.env.get(PEND)), fl.witness(s))
    # in-place NUL terminators are written only while the 2 length bytes at buf are owned (sz already shrunk, buf not yet advanced) or at the very end
    for s in fl.sites:
        ev = s.ev
        if ev.get("e") == "asg" and ev.get("op") == "=" and E.strip(ev.get("lhs")).get("k") == "un" and E.m_is_ref("buf")(E.strip(ev["lhs"])["e"]):
            pend = dict(s.env.get(PEND, ()))
            if pend == {"2": -1} or not pend:
                ck.ok(rule + ".terminator", s.where(), "%s: '*buf = 0' overwrites an owned length byte (net %s)" % (fn.name, pend or "{}"))
            else:
                ck.violation(rule + ".terminator", "%s|%s|terminator" % (rule, fn.name), s.where(), "%s: '*buf = 0' written while the window is out of step (%s)" % (fn.name, pend))


def run(ck):
    facts = ck.facts(["src/htcp.cc", "src/icp_v2.cc"])

    ck.rule("H1 LOCKSTEP(htcpUnpackSpecifier, htcpUnpackDetail): every `sz -= 2` consumes a fresh successful parseUint16(buf, sz, ...); every move by a "
            "variable length l is preceded by the rejection of l > sz; buf and sz have moved by equal amounts at every successful return")
    for name in ("htcpUnpackSpecifier", "htcpUnpackDetail"):
        lockstep(ck, facts.fn(name), "H1")
    pu = facts.fn("parseUint16")
    ck.require_fact("H1.uint16", ck.flow(pu), ev_call("memcpy"), E.m_cmp("<", E.m_is_ref("sz"), E.m_const(2)), False, "memcpy(&out, buf, 2)", why="(2 bytes read from a shorter window)")

    ck.rule("H2 htcpHandleMsg: header structs are copied out of the datagram only after sz/hsz was compared with their sizeof; the data section is cut to hdr.length "
            "only after hsz >= hdr.length >= sizeof(htcpDataHeader); htcpRecv leaves one byte for the terminator")
    hm = facts.fn("htcpHandleMsg")
    fl = ck.flow(hm)
    for s in ck.sites(fl, ev_call("memcpy"), "memcpy", 3):
        x = E.strip(s.ev["x"])
        n = E.const(x["a"][2])
        src = E.key(x["a"][1])
        lim = "sz" if src == "buf" else "hsz"
        okb = E.M(lambda t, n=n, lim=lim: E.strip(t).get("k") == "bin" and E.strip(t).get("op") == "<" and lim in E.mentions(E.strip(t)["l"]) and E.const(E.strip(t)["r"]) is not None and E.const(E.strip(t)["r"]) >= n, "(%s < K>=%s)" % (lim, n))
        if n is not None and s.has(okb, False):
            ck.ok("H2.header-copy", s.where(), "memcpy of %d bytes from %s only with %s >= %d" % (n, src, lim, n))
        else:
            ck.violation("H2.header-copy", "H2|htcpHandleMsg|memcpy|%s|%s" % (src, n), s.where(), "memcpy of %s bytes from %s without %s >= that size established (facts %s)" % (n, src, lim, s.fact_keys()))
    cut = ck.sites(fl, lambda ev: ev.get("e") == "asg" and ev.get("op") == "=" and E.m_is_ref("hsz")(ev.get("lhs")) and E.m_is_mem("length")(ev.get("rhs")), "hsz = hdr.length", 1)
    for s in cut:
        a = s.has(E.m_cmp("<", E.m_is_ref("hsz"), E.m_is_mem("length")), False)
        b = s.has(E.M(lambda t: E.strip(t).get("k") == "bin" and E.strip(t).get("op") == "<" and E.m_is_mem("length")(E.strip(t)["l"]) and E.const(E.strip(t)["r"]) is not None, "(hdr.length < sizeof(htcpDataHeader))"), False)
        if a and b:
            ck.ok("H2.data-length", s.where(), "hsz = hdr.length only with sizeof(htcpDataHeader) <= hdr.length <= hsz")
        else:
            ck.violation("H2.data-length", "H2|htcpHandleMsg|data-length", s.where(), "hsz is set from the packet's hdr.length without both bounds (facts %s)" % s.fact_keys())
    rv = facts.fn("htcpRecv")
    rc = [ev for b in rv.blocks.values() for ev in b["ev"] if ev_call("comm_udp_recvfrom")(ev)]
    ck.need(len(rc) == 1, "C39: comm_udp_recvfrom call not found in htcpRecv")
    a = E.strip(rc[0]["x"])["a"]
    bufdecl = [ev for b in rv.blocks.values() for ev in b["ev"] if ev.get("e") == "decl" and ev.get("d") == "buf"]
    if bufdecl and bufdecl[0].get("arr") and E.const(a[2]) is not None and E.const(a[2]) <= bufdecl[0]["arr"] - 1 and E.m_is_ref("buf")(a[1]):
        ck.ok("H2.recv-room", rv.where(), "htcpRecv reads at most sizeof(buf) - 1 = %d bytes into buf[%d]" % (E.const(a[2]), bufdecl[0]["arr"]))
    else:
        ck.violation("H2.recv-room", "H2|htcpRecv|room-for-terminator", rv.where(), "htcpRecv no longer leaves a spare byte for the in-place terminators")

    ck.rule("I1 ICP: icpHandleUdp dispatches only datagrams of at least sizeof(icp_common_t) and NUL-terminates inside its buffer; icp_common_t(buf,len) copies the header "
            "only if len >= sizeof; icpHandleIcpV2 handles a packet only if len == header.length; icpGetUrl returns a URL only if it ends exactly at the packet end")
    hu = facts.fn("icpHandleUdp")
    fl = ck.flow(hu)
    small = E.M(lambda t: E.strip(t).get("k") == "bin" and E.strip(t).get("op") == "<" and "len" in E.mentions(E.strip(t)["l"]) and E.const(E.strip(t)["r"]) == 20, "(len < sizeof(icp_common_t))")
    ck.require_fact("I1.min-size", fl, ev_any(ev_call("icpHandleIcpV2"), ev_call("icpHandleIcpV3")), small, False, "icpHandleIcpV2/3()", min_sites=2, why="(a truncated ICP header would be interpreted)")
    rc = [s for s in fl.find(ev_call("comm_udp_recvfrom"))]
    ck.need(len(rc) == 1, "C39: comm_udp_recvfrom not found in icpHandleUdp")
    a = E.strip(rc[0].ev["x"])["a"]
    bd = [ev for b in hu.blocks.values() for ev in b["ev"] if ev.get("e") == "decl" and ev.get("d") == "buf"]
    if bd and bd[0].get("arr") and E.const(a[2]) is not None and E.const(a[2]) <= bd[0]["arr"] - 1:
        ck.ok("I1.recv-room", hu.where(), "icpHandleUdp reads at most %d bytes into buf[%d], so buf[len] = 0 stays inside" % (E.const(a[2]), bd[0]["arr"]))
    else:
        ck.violation("I1.recv-room", "I1|icpHandleUdp|room-for-terminator", hu.where(), "icpHandleUdp can fill its whole buffer: buf[len] = '\\0' would write past it")
    ctor = [f for f in facts.fns("icp_common_t::icp_common_t") if "char *" in f.sig]
    ck.need(len(ctor) == 1, "C39: icp_common_t(char*, unsigned) not found")
    ck.require_fact("I1.header-copy", ck.flow(ctor[0]), ev_call("memcpy"), E.M(lambda t: E.strip(t).get("k") == "bin" and E.strip(t).get("op") == "<" and E.m_is_ref("len")(E.strip(t)["l"]) and E.const(E.strip(t)["r"]) == 20, "(len < sizeof(icp_common_t))"), False, "memcpy(this, buf, sizeof)")
    v2 = facts.fn("icpHandleIcpV2")
    fl = ck.flow(v2)
    ck.require_fact("I1.length-matches", fl, ev_any(ev_call("doV2Query"), ev_call("icp_common_t::handleReply")), E.m_cmp("==", E.m_is_ref("len"), E.m_is_mem("length")), True, "doV2Query/handleReply", min_sites=2,
                    why="(the header's length field would be trusted beyond the bytes received)")
    gu = facts.fn("icpGetUrl")
    fl = ck.flow(gu)
    nonnull = lambda ev: ev.get("e") == "ret" and E.strip(ev.get("x") or {}).get("k") != "null"
    ck.require_fact("I1.url-inside-packet", fl, nonnull, E.m_cmp("<", E.m_is_ref("urlOffset"), E.m_is_ref("receivedPacketSize")), True, "return url")
    exact = E.m_cmp("==", E.M(lambda t: "strlen" in E.mentions(t), "urlOffset + strlen(url) + 1"), E.m_is_ref("receivedPacketSize"))      # either operand order
    ck.require_fact("I1.url-inside-packet", fl, nonnull, exact, True, "return url", why="(a URL without its terminator inside the packet would be used)")
    ck.rule("N1 BUDGET asn_parse_objid (lib/snmplib, reached from snmpHandleUdp before any ACL): sub-identifiers are stored through a cursor that starts K elements into "
            "the caller's array (oidp = objid + K: the first encoded byte expands into two components) and every store is paid for by one decrement of the caller's "
            "capacity *objidlength; at each store the decrements made so far exceed the stores made so far by at least K + 1, so at most capacity elements are ever "
            "written (dropping the 'account for expansion of first byte' decrement lets a 65-component OID write one element past a 64-element array)")
    sn = ck.facts(["lib/snmplib/asn1.c"], whole=False)
    ao = sn.fn("asn_parse_objid")
    cur = [ev for b in ao.blocks.values() for ev in b["ev"] if ev.get("e") == "decl" and E.strip(ev.get("init") or {}).get("k") == "bin" and E.strip(ev["init"]).get("op") == "+"
           and E.strip(E.strip(ev["init"])["l"]).get("dk") == "param" and E.const(E.strip(ev["init"])["r"]) is not None]
    ck.need(len(cur) == 1, "C39: the output cursor of asn_parse_objid (objid + K) was not found")
    curname, K = cur[0]["d"], E.const(E.strip(cur[0]["init"])["r"])
    capname = [p_["d"] for p_ in ao.params if p_["d"] != E.strip(E.strip(cur[0]["init"])["l"])["d"] and "int *" in p_["t"]]
    capname = [n for n in capname if any(ev.get("e") == "asg" and ev.get("op") == "--" and E.strip(ev["lhs"]).get("k") == "un" and E.m_is_ref(n)(E.strip(ev["lhs"]).get("e")) for b in ao.blocks.values() for ev in b["ev"])]
    ck.need(len(capname) == 1, "C39: the capacity counter of asn_parse_objid was not found: %s" % capname)
    capname = capname[0]
    is_dec = lambda ev: ev.get("e") == "asg" and ev.get("op") in ("--", "p--") and E.strip(ev["lhs"]).get("k") == "un" and E.m_is_ref(capname)(E.strip(ev["lhs"]).get("e"))
    is_store = lambda ev: ev.get("e") == "asg" and ev.get("op") == "=" and curname in E.mentions(ev.get("lhs")) and E.strip(ev["lhs"]).get("k") == "un"

    def slack(ev, env, fs):
        if is_dec(ev):
            env["$slack"] = min(4, env.get("$slack", 0) + 1)
        elif is_store(ev):
            env["$slack"] = max(-2, env.get("$slack", 0) - 1)
    afl = ck.flow(ao, on_event=slack)
    stores = [st for st in afl.sites if is_store(st.ev)]
    ck.need(stores, "C39: asn_parse_objid no longer stores sub-identifiers through its cursor")
    for st in stores:
        have = st.env.get("$slack", 0)
        if have >= K + 1:
            ck.ok("N1.objid-store-budget", st.where(), "each store is covered: %d decrement(s) ahead of the stores, cursor offset %d" % (have, K))
        else:
            ck.violation("N1.objid-store-budget", "N1|asn_parse_objid|store-budget", st.where(),
                         "asn_parse_objid stores through `%s` (which starts %d element(s) into the array) with only %d unspent decrement(s) of *%s: the last store can land one "
                         "element past the caller's array" % (curname, K, have, capname), afl.witness(st))
    ck.assume("SNMP decoding other than asn_parse_objid (N1) and use-after-free/abort freedom are not decided by this module; the window arithmetic of callers of the unpackers is trusted")
