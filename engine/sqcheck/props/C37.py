"""C37 DNS message decoding is memory-safe: bounded-read clause of the rfc1035 decoders (DESIGN.md 5/C37)."""
from .. import expr as E
from ..budget import Budget
from ..flow import ev_call, ev_return


def deref(name):
    return E.M(lambda t: E.strip(t).get("k") == "un" and E.strip(t).get("op") == "*" and E.m_is_ref(name)(E.strip(t)["e"]), "*" + name)


def run(ck):
    facts = ck.facts(["src/dns/rfc1035.cc"])
    off, sz, buf = deref("off"), E.m_is_ref("sz"), E.m_is_ref("buf")

    ck.rule("N1 BUDGET(rfc1035NameUnpack, rfc1035HeaderUnpack, rfc1035RRUnpack, rfc1035QueryUnpack): every memcpy/dereference at buf + *off is covered, "
            "on its own path, by a guard comparing *off (+ n) with sz that was established after the last change of *off and not yet spent by `*off += c`")
    # bytes guaranteed beyond each read (in source order), confirmed by reading: a guard that asks for MORE than is consumed rejects well-formed
    # messages that end exactly there (e.g. a compression pointer in the last two octets); the label copy keeps 1 byte for the next length octet
    SLACK = {"rfc1035NameUnpack": [0, 0, 1], "rfc1035HeaderUnpack": [10, 8, 6, 4, 2, 0], "rfc1035RRUnpack": [8, 6, 2, 0, 0], "rfc1035QueryUnpack": [2, 0]}
    for name, mr in (("rfc1035NameUnpack", 3), ("rfc1035HeaderUnpack", 6), ("rfc1035RRUnpack", 5), ("rfc1035QueryUnpack", 2)):
        fn = facts.fn(name)
        bd = Budget(ck, fn, off, sz, buf)
        rs = bd.check("N1.bounded-read", min_reads=mr, why="(out-of-bounds read on a short or hostile datagram)")
        per_line = {}
        for s_, need, desc in rs:
            per_line.setdefault((s_.line, desc), set()).add(Budget.slack(s_.env.get("$budget"), need))
        got = [sorted(v, key=lambda x: (x is None, x))[0] if len(v) == 1 else None for k, v in sorted(per_line.items())]
        if got == SLACK[name]:
            ck.ok("N1.guards-are-tight", fn.where(), "%s: each guard asks for exactly the bytes its reads consume (slack per read %s)" % (name, got))
        else:
            ck.violation("N1.guards-are-tight", "N1|%s|guard-slack" % name, fn.where(),
                         "%s: the bytes guaranteed beyond each read changed from %s to %s: a guard now demands more (well-formed messages ending exactly there are rejected) "
                         "or less (reads past the datagram) than the decoder consumes" % (name, SLACK[name], got))

    ck.rule("N2 rfc1035NameUnpack: the recursive call for a compression pointer requires rdepth > 64 rejected, the pointer target ptr < sz, passes rdepth + 1 and the "
            "remaining destination (name + no, ns - no); a label is copied only if len <= ns - no - 1")
    nu = facts.fn("rfc1035NameUnpack")
    fl = ck.flow(nu)
    rec = ev_call("rfc1035NameUnpack")
    ck.require_fact("N2.pointer-loop-bound", fl, rec, E.m_cmp("<", E.m_const(64), E.m_is_ref("rdepth")), False, "recursive call", why="(compression-pointer loop would recurse without bound)")
    ck.require_fact("N2.pointer-target", fl, rec, E.m_cmp("<", E.m_is_ref("ptr"), E.m_is_ref("sz")), True, "recursive call", why="(a pointer past the message would be followed)")
    for s in fl.find(rec):
        a = E.strip(s.ev["x"])["a"]
        good = (len(a) == 7 and E.ckey(a[6]) == E.cbin("+", "rdepth", "1") and E.ckey(a[4]) == E.cbin("+", "name", "no") and E.key(a[5]) == "(ns - no)" and
                E.strip(a[2]).get("k") == "un" and E.m_is_ref("ptr")(E.strip(a[2])["e"]) and E.m_is_ref("sz")(a[1]) and E.m_is_ref("buf")(a[0]))
        if good:
            ck.ok("N2.recursion-args", s.where(), "recursion passes (buf, sz, &ptr, rdlength, name + no, ns - no, rdepth + 1)")
        else:
            ck.violation("N2.recursion-args", "N2|rfc1035NameUnpack|recursion-args", s.where(), "recursive call arguments changed: %s" % [E.key(x) for x in a])
    label_copy = ev_call("memcpy", arg={0: E.M(lambda t: E.ckey(t) == E.cbin("+", "name", "no"), "name + no")})
    fits = E.M(lambda t: E.strip(t).get("k") == "bin" and E.strip(t).get("op") == "<" and E.key(E.strip(t)["l"]) == "((ns - no) - 1)" and E.m_is_ref("len")(E.strip(t)["r"]), "(ns - no - 1) < len")
    ck.require_fact("N2.label-fits-destination", fl, label_copy, fits, False, "memcpy(name + no, ...)", why="(a long label would overflow the caller's name buffer)")
    ck.require_fact("N2.label-size", fl, label_copy, E.m_cmp("<", E.m_any(), E.m_is_ref("c")) & E.M(lambda t: E.const(E.strip(t)["l"]) == 63, "63 < c"), False, "memcpy(name + no, ...)")

    ck.rule("N3 rfc1035RRUnpack: the rdata copy uses the same rdlength that was bounds-checked; the PTR branch re-checks that name unpacking stayed inside the RDATA area; "
            "callers pass RFC1035_MAXHOSTNAMESZ for buffers of that declared size")
    rr = facts.fn("rfc1035RRUnpack")
    fl = ck.flow(rr)
    for s in fl.find(ev_call("memcpy", arg={0: E.m_is_mem("rdata")})):
        a = E.strip(s.ev["x"])["a"]
        al = [x for x in fl.sites if x.ev.get("e") == "asg" and E.m_is_mem("rdata")(x.ev.get("lhs")) and x.bid == s.bid]
        same = al and any(E.m_is_ref("rdlength")(E.strip(E.strip(x.ev["rhs"]).get("a", [None])[0])) for x in al if E.strip(E.strip(x.ev["rhs"])).get("f") == "xmalloc" or True)
        if E.m_is_ref("rdlength")(a[2]):
            ck.ok("N3.rdata-copy", s.where(), "rdata copy length is the checked rdlength")
        else:
            ck.violation("N3.rdata-copy", "N3|rfc1035RRUnpack|rdata-length", s.where(), "rdata is copied with %s, not the bounds-checked rdlength" % E.key(a[2]))
    over = E.M(lambda t: E.strip(t).get("k") == "bin" and E.strip(t).get("op") == "<" and "rdata_off" in E.mentions(E.strip(t)["r"]) and "rdlength" in E.mentions(E.strip(t)["l"]), "(*off + rdlength) < rdata_off")
    ck.need(ck.trigger_edges(rr, over, True), "C37: PTR RDATA overrun re-check vanished from rfc1035RRUnpack")
    ck.require_response("N3.ptr-overrun-rejected", rr, over, True, ev_return(E.m_const(1)), "return 1")
    hostsz = facts  # RFC1035_MAXHOSTNAMESZ is a macro constant: compare with the declared array sizes through the call arguments
    for fname in ("rfc1035RRUnpack", "rfc1035QueryUnpack"):
        f = facts.fn(fname)
        for s in ck.flow(f).find(ev_call("rfc1035NameUnpack")):
            a = E.strip(s.ev["x"])["a"]
            n = E.const(a[5])
            if n == 256:
                ck.ok("N3.name-buffer-size", s.where(), "%s passes ns = %s (RFC1035_MAXHOSTNAMESZ)" % (fname, n))
            else:
                ck.violation("N3.name-buffer-size", "N3|%s|ns" % fname, s.where(), "%s passes ns = %s to rfc1035NameUnpack, not RFC1035_MAXHOSTNAMESZ (256)" % (fname, E.key(a[5])))

    ck.rule("N3b rfc1035RRUnpack: once RR->rdata was xfree()d on an error path it is reset (memset(RR, 0, sizeof) or rdata = nullptr) before returning, because the caller "
            "destroys the record array again (double free otherwise)")
    def dangling(ev, env, facts_):
        if ev_call("xfree")(ev) and E.m_is_mem("rdata")(E.strip(ev["x"])["a"][0]):
            env["$dangling"] = 1
        elif ev_call("memset")(ev) and E.m_is_ref("RR")(E.strip(ev["x"])["a"][0]):
            env.pop("$dangling", None)
        elif ev.get("e") == "asg" and E.m_is_mem("rdata")(ev.get("lhs")):
            env.pop("$dangling", None)
    fld = ck.flow(rr, on_event=dangling)
    frees = [s_ for s_ in fld.sites if ev_call("xfree")(s_.ev) and E.m_is_mem("rdata")(E.strip(s_.ev["x"])["a"][0])]
    ck.need(len(frees) >= 2, "C37: xfree(RR->rdata) error paths not found")
    for s_ in fld.find(ev_return()):
        if s_.env.get("$dangling"):
            ck.violation("N3b.no-dangling-rdata", "N3b|rfc1035RRUnpack|dangling-rdata", s_.where(),
                         "rfc1035RRUnpack returns with RR->rdata freed but not cleared: rfc1035RRDestroy() frees it again (e.g. a PTR answer whose name has a compression loop)", fld.witness(s_))
        else:
            ck.ok("N3b.no-dangling-rdata", s_.where(), "no freed rdata pointer survives this return")

    ck.rule("N4 rfc1035MessageUnpack: an RR is unpacked only while off < sz; the query/answer arrays are sized by the same counts that bound the loops")
    mu = facts.fn("rfc1035MessageUnpack")
    fl = ck.flow(mu)
    ck.require_fact("N4.answers-within-message", fl, ev_call("rfc1035RRUnpack"), E.m_cmp("<", E.m_is_ref("off"), E.m_is_ref("sz")), True, "rfc1035RRUnpack()")
    ck.assume("equality of decoded and encoded messages is not decided; writes of the '.' separators and the final NUL are covered only through the label-fits guard")
