"""BUDGET (DESIGN.md 4.8): bounded reads in hand-written decoders that walk a raw buffer with a cursor.

A guard of the form  `cursor + K > limit -> fail` (any equivalent comparison) establishes on its passing edge a *budget*
of K bytes (constant or one symbolic variable); every `cursor += c` spends it; any other write to the cursor forfeits it;
each read of n bytes at `buf + cursor` needs budget >= n at that point.  The budget is carried path-sensitively in the
flow environment (env["$budget"]), so it is exact per path and joins nothing.
"""
from . import expr as E

BKEY = "$budget"


class Budget:
    def __init__(self, ck, fn, cursor, limit, buf, copy_fns=("memcpy", "memmove", "xmemcpy"), start_facts=None):
        """cursor/limit/buf: matchers for the cursor expression (e.g. `*off`), the limit (`sz`) and the buffer base (`buf`)"""
        self.ck = ck
        self.fn = fn
        self.cursor = cursor
        self.limit = limit
        self.buf = buf
        self.copy_fns = set(copy_fns)
        self.flow = ck.flow(fn, on_event=self._on_event, on_edge=self._on_edge)

    # ---- helpers
    def _split_sum(self, t):
        """t == cursor + X  ->  X tree ; t == cursor -> 0-literal ; else None"""
        t = E.strip(t)
        if self.cursor(t):
            return {"k": "lit", "v": 0}
        if isinstance(t, dict) and t.get("k") == "bin" and t.get("op") == "+":
            if self.cursor(t.get("l")):
                return t.get("r")
            if self.cursor(t.get("r")):
                return t.get("l")
        return None

    @staticmethod
    def _amount(x, extra=0):
        c = E.const(x)
        if c is not None:
            return ("c", c + extra)
        return ("s", E.key(x), extra)

    def _on_edge(self, b, lab, imp, env, facts):
        for t, v in imp:
            t = E.strip(t)
            if isinstance(t, dict) and t.get("k") == "bin" and t.get("op") == "==" and self.cursor(t.get("l")) and E.const(t.get("r")) == 0 and v is True:
                env["$zero"] = 1
            if self.cursor(t) and v is False:       # `!cursor` / `cursor == 0` normalised to the falsity of the cursor
                env["$zero"] = 1
            if not isinstance(t, dict) or t.get("k") != "bin" or t.get("op") != "<":
                continue
            l, r = t.get("l"), t.get("r")
            # cursor known to be 0 (assert(*off == 0)) and (limit < K) is False  =>  budget K
            if self.limit(l) and v is False and E.const(r) is not None and env.get("$zero") == 1:
                env[BKEY] = ("c", E.const(r))
            # (limit < cursor + K) is False  =>  cursor + K <= limit  => budget K
            if self.limit(l) and v is False:
                x = self._split_sum(r)
                if x is not None:
                    env[BKEY] = self._amount(x)
            # (cursor + K < limit) is True  =>  at least K+1 bytes  => budget K (+1 for constants)
            if self.limit(r) and v is True:
                x = self._split_sum(l)
                if x is not None:
                    a = self._amount(x)
                    env[BKEY] = ("c", a[1] + 1) if a[0] == "c" else ("s", a[1], a[2] + 1)
        return True

    def _on_event(self, ev, env, facts):
        if ev.get("e") != "asg":
            return
        lhs = ev.get("lhs")
        if not self.cursor(lhs):
            return
        env.pop("$zero", None)
        cur = env.get(BKEY)
        op = ev.get("op")
        step = None
        if op in ("++",):
            step = ("c", 1)
        elif op == "+=":
            step = self._amount(ev.get("rhs"))
        if cur is None or step is None:
            env.pop(BKEY, None)
            return
        if cur[0] == "c" and step[0] == "c":
            env[BKEY] = ("c", cur[1] - step[1])
        elif cur[0] == "s" and step[0] == "s" and cur[1] == step[1]:
            env[BKEY] = ("c", cur[2])
        elif cur[0] == "s" and step[0] == "c":
            env[BKEY] = ("s", cur[1], cur[2] - step[1])
        else:
            env.pop(BKEY, None)

    # ---- read sites
    def _is_at_cursor(self, t):
        """expression is buf + cursor (pointer to the current position)"""
        t = E.strip(t)
        if isinstance(t, dict) and t.get("k") == "bin" and t.get("op") == "+":
            return (self.buf(t.get("l")) and self.cursor(t.get("r"))) or (self.buf(t.get("r")) and self.cursor(t.get("l")))
        return False

    def reads(self):
        """[(site, n-amount, description)] for every read at buf+cursor"""
        out = []
        for s in self.flow.sites:
            ev = s.ev
            if ev.get("e") == "call":
                x = E.strip(ev["x"])
                if isinstance(x, dict) and x.get("f") in self.copy_fns and len(x.get("a", [])) == 3 and self._is_at_cursor(x["a"][1]):
                    out.append((s, self._amount(x["a"][2]), "%s(_, buf+cursor, %s)" % (x["f"], E.key(x["a"][2]))))
                    continue
            if ev.get("e") == "call":
                continue        # nested expressions of calls are reported once through their own events/decls
            for t in (ev.get("rhs"), ev.get("init"), ev.get("x") if ev.get("e") in ("ret",) else None):
                if t is None:
                    continue
                for n in E.walk(t):
                    if n.get("k") == "un" and n.get("op") == "*" and self._is_at_cursor(n.get("e")):
                        out.append((s, ("c", 1), "*(buf+cursor)"))
                    elif n.get("k") == "idx" and self.buf(n.get("b")) and self.cursor(n.get("i")):
                        out.append((s, ("c", 1), "buf[cursor]"))
        return out

    @staticmethod
    def covers(budget, need):
        if budget is None:
            return False
        if budget[0] == "c" and need[0] == "c":
            return budget[1] >= need[1]
        if budget[0] == "s" and need[0] == "s":
            return budget[1] == need[1] and budget[2] >= need[2]
        if budget[0] == "s" and need[0] == "c":
            return budget[2] >= need[1]
        return False

    @staticmethod
    def slack(budget, need):
        """bytes guaranteed beyond what the read takes (None if not comparable)"""
        if budget is None:
            return None
        if budget[0] == "c" and need[0] == "c":
            return budget[1] - need[1]
        if budget[0] == "s" and need[0] == "s" and budget[1] == need[1]:
            return budget[2] - need[2]
        return None

    def check(self, rule, min_reads=1, why=""):
        rs = self.reads()
        if len(rs) < min_reads:
            raise self.ck.broken("%s: BUDGET found %d read(s) at buf+cursor in %s, expected >= %d" % (self.ck.pid, len(rs), self.fn.name, min_reads))
        for s, need, desc in rs:
            b = s.env.get(BKEY)
            if self.covers(b, need):
                self.ck.ok(rule, s.where(), "%s: %s needs %s, budget %s" % (self.fn.name, desc, fmt(need), fmt(b)))
            else:
                self.ck.violation(rule, "%s|%s|%s|budget" % (rule, self.fn.name, desc), s.where(),
                                  "%s: %s reads %s byte(s) at the cursor but the guards on this path only establish %s %s"
                                  % (self.fn.name, desc, fmt(need), fmt(b), why), self.flow.witness(s))
        return rs


def fmt(a):
    if a is None:
        return "no budget"
    if a[0] == "c":
        return str(a[1])
    return a[1] + ("%+d" % a[2] if a[2] else "")
