"""BALANCE (DESIGN.md 4.2): exact per-path effect summaries for small loop-free protocol functions.

Enumerates every acyclic CFG path of a function.  Along a path, *effect events* (chosen by the
rule: atomic increments, flag stores, calls of lock primitives...) update symbolic counters; an
event may have several outcomes (a try-lock succeeds or fails, test_and_set saw 0 or 1), each
outcome forks the path and binds the event's value so that the branch testing it is followed
consistently.  The result is the set of (exit class, net effect, ordered op sequence) triples,
which a rule compares with a contract table.
"""
from . import expr as E
from .flow import NORET


class Path:
    __slots__ = ("ret", "effects", "seq", "blocks", "line")

    def __init__(self, ret, effects, seq, blocks, line):
        self.ret = ret          # True / False / None (void) / "?" (value-dependent) / "throw"
        self.effects = effects  # dict counter -> ("d", delta) | ("=", value)
        self.seq = seq          # ordered list of (op, counter)
        self.blocks = blocks
        self.line = line

    def net(self):
        out = {}
        for k, v in self.effects.items():
            if v[0] == "d" and v[1] == 0:
                continue
            out[k] = ("%+d" % v[1]) if v[0] == "d" else ("=%s" % v[1])
        return out


def apply_effect(effects, counter, eff):
    kind, val = eff
    cur = effects.get(counter, ("d", 0))
    if kind == "d":
        if cur[0] == "d":
            effects[counter] = ("d", cur[1] + val)
        else:
            effects[counter] = ("=", cur[1] + val if isinstance(cur[1], int) else cur[1])
    else:
        effects[counter] = ("=", val)


def enumerate_paths(fn, outcomes, max_paths=20000, ret_of=None):
    """outcomes(ev) -> None | [ (bound_value_or_None, [(op, counter, effect_or_None)...]) ... ]
    bound values are attached to key(ev expression) for later branch evaluation.
    ret_of(tree, bindings) may classify a return expression (default: constants and bound calls)."""
    results = []
    count = [0]

    def leaf_eval_factory(bind):
        def ev(t):
            k = E.key(t)
            if k in bind:
                return bind[k]
            return None
        return ev

    def classify_ret(x, bind):
        if x is None:
            return None
        if ret_of:
            r = ret_of(x, bind)
            if r is not None:
                return r
        c = E.const(x)
        if c is not None:
            return bool(c)
        r = E.eval3(x, leaf_eval_factory(bind))
        if r is not None:
            return r
        s = E.strip(x)
        if isinstance(s, dict) and s.get("k") == "null":
            return False
        if isinstance(s, dict) and s.get("k") == "un" and s.get("op") == "&":
            return True     # address of an object: non-null
        return "?"

    def walk(bid, idx, effects, seq, bind, visited, blocks):
        if count[0] > max_paths:
            raise RuntimeError("too many paths in %s" % fn.name)
        b = fn.blocks[bid]
        evs = b["ev"]
        while idx < len(evs):
            ev = evs[idx]
            idx += 1
            if ev.get("e") == "call":
                x = E.strip(ev.get("x"))
                if isinstance(x, dict) and (x.get("f") in NORET or x.get("noret")):
                    count[0] += 1
                    results.append(Path("throw", dict(effects), list(seq), list(blocks), ev.get("l")))
                    return
            alts = outcomes(ev)
            if alts:
                if len(alts) == 1 and alts[0][0] is None:
                    for (op, counter, eff) in alts[0][1]:
                        seq.append((op, counter))
                        if eff is not None:
                            apply_effect(effects, counter, eff)
                    continue
                tree = ev.get("x") if ev.get("e") == "call" else None
                k = E.key(tree) if tree is not None else None
                for (val, ops) in alts:
                    e2 = dict(effects)
                    s2 = list(seq)
                    b2 = dict(bind)
                    for (op, counter, eff) in ops:
                        s2.append((op, counter))
                        if eff is not None:
                            apply_effect(e2, counter, eff)
                    if k is not None and val is not None:
                        b2[k] = val
                    walk(bid, idx, e2, s2, b2, visited, blocks)
                return
            if ev.get("e") == "decl" and ev.get("init") is not None:
                ik = E.key(ev["init"])
                if ik in bind:
                    bind = dict(bind)
                    bind[ev["d"]] = bind[ik]
            if ev.get("e") == "ret":
                count[0] += 1
                results.append(Path(classify_ret(ev.get("x"), bind), dict(effects), list(seq), list(blocks), ev.get("l")))
                return
            if ev.get("e") == "throw":
                count[0] += 1
                results.append(Path("throw", dict(effects), list(seq), list(blocks), ev.get("l")))
                return
        if bid == fn.exit or not b["succ"]:
            count[0] += 1
            results.append(Path("throw" if (b.get("noret") or b.get("throw")) else None, dict(effects), list(seq), list(blocks), None))
            return
        term = b.get("term")
        cond = term.get("c") if term else None
        for s in b["succ"]:
            to = s["to"]
            lab = s.get("lab")
            if lab in ("T", "F") and cond is not None:
                r = E.eval3(cond, leaf_eval_factory(bind))
                if r is not None and r != (lab == "T"):
                    continue
            if (bid, to) in visited:
                continue  # acyclic paths only
            if to == fn.exit:
                count[0] += 1
                kind = "throw" if (b.get("noret") or b.get("throw")) else None
                results.append(Path(kind, dict(effects), list(seq), list(blocks) + [to], None))
                continue
            walk(to, 0, dict(effects), list(seq), dict(bind), visited | {(bid, to)}, blocks + [to])

    walk(fn.entry, 0, {}, [], {}, frozenset(), [fn.entry])
    return results


# ------------------------------------------------------------------ std::atomic helpers

def atomic_member_op(ev, members):
    """classify an event as an operation on one of the named (short) member names.
    returns (member, op, const) with op in inc, dec, set, read, tas, clear, rmw, store"""
    e = ev.get("e")
    if e == "call":
        x = E.strip(ev.get("x"))
        if not isinstance(x, dict) or "o" not in x:
            return None
        o = E.strip(x["o"])
        if not isinstance(o, dict) or o.get("k") != "mem":
            return None
        m = o["m"].split("::")[-1]
        if m not in members:
            return None
        f = x.get("f", "").split("::")[-1]
        if f == "operator++":
            return (m, "inc", None)
        if f == "operator--":
            return (m, "dec", None)
        if f == "operator=" or f == "store":
            a = x.get("a", [])
            return (m, "set", E.const(a[0]) if a else None)
        if f.startswith("operator ") or f == "load":
            return (m, "read", None)
        if f == "test_and_set":
            return (m, "tas", None)
        if f == "clear":
            return (m, "clear", None)
        if f == "test":
            return (m, "read", None)
        if f.startswith("fetch_") or f.startswith("compare_exchange") or f == "exchange" or f in ("operator+=", "operator-=", "operator|=", "operator&="):
            return (m, "rmw:" + f, None)
        return (m, "other:" + f, None)
    if e == "asg":
        l = E.strip(ev.get("lhs"))
        if isinstance(l, dict) and l.get("k") == "mem" and l["m"].split("::")[-1] in members:
            m = l["m"].split("::")[-1]
            op = ev.get("op")
            if op == "++":
                return (m, "inc", None)
            if op == "--":
                return (m, "dec", None)
            if op in ("=", "init"):
                return (m, "set", E.const(ev.get("rhs")))
            return (m, "rmw:" + op, None)
    return None
