"""Translation units, compile flags and the fact cache (DESIGN.md 3.1/3.2).

Everything is derived from /repo's *current working tree* on every run:
 - membership: sources with a sibling object in the configured in-tree build;
 - flags: `make -n -W <src> <obj>` in the unit's directory (no side effects);
 - facts: extracted by build/sqfacts; re-used from /verif/.cache only when the SHA-1 of
   every file the front end read last time (dependency manifest) is unchanged and the
   flags are unchanged ("direct mode" of a compiler cache).
"""
import hashlib
import json
import os
import re
import shlex
import subprocess
import sys
import time
from concurrent.futures import ThreadPoolExecutor

REPO = os.environ.get("SQ_REPO", "/repo")
VERIF = os.path.dirname(os.path.dirname(os.path.dirname(os.path.abspath(__file__))))
CACHE = os.environ.get("SQ_CACHE", os.path.join(VERIF, ".cache"))
SQFACTS = os.environ.get("SQ_SQFACTS", os.path.join(VERIF, "build", "sqfacts"))
EXTRACTOR_SRC = os.path.join(VERIF, "engine", "sqfacts.cc")

# headers whose inline/template functions get full CFG facts in every unit including them
HDR_CFG = [
    "src/ipc/Queue.h", "src/base/ClpMap.h", "src/SquidMath.h", "src/ipc/ReadWriteLock.h",
    "src/ipc/StoreMap.h", "src/ipc/mem/PageStack.h", "src/http/one/Parser.h",
    "src/acl/SplayInserter.h", "src/sbuf/SBuf.h", "src/base/Range.h", "src/http/StatusCode.h",
    "src/http/RegisteredHeadersHash.cci", "src/MemBuf.h", "src/Pipeline.h", "src/ipc/TypedMsgHdr.h",
    "src/http/Stream.h", "src/HttpRequest.h", "src/RequestFlags.h", "src/http/StateFlags.h",
    "src/parser/BinaryTokenizer.h", "src/parser/Tokenizer.h",
]

SKIP_DIR_PARTS = ("/tests", "/test-suite", "/.libs")

# Overlay mode (thorough tier, checker self-validation): SQ_OVERLAY names a JSON file {absolute source path: replacement file}.
# The extractor then analyses the program *as if* those files had the replacement content; nothing on disk changes, the main
# cache is only read (units whose inputs are overlaid are extracted into SQ_OVERLAY_CACHE instead).
OVERLAY = {}
if os.environ.get("SQ_OVERLAY"):
    with open(os.environ["SQ_OVERLAY"]) as _f:
        OVERLAY = json.load(_f)
OVERLAY_CACHE = os.environ.get("SQ_OVERLAY_CACHE")
_prefix_override = {}


class AnalysisBroken(Exception):
    """exit 2: the analysis itself cannot be carried out (anchor vanished, parse failure...)"""


_sha_memo = {}


def sha1(path):
    path = OVERLAY.get(path, path)
    try:
        st = os.stat(path)
    except OSError:
        return None
    k = (path, st.st_mtime_ns, st.st_size)
    v = _sha_memo.get(k)
    if v is None:
        with open(path, "rb") as f:
            v = hashlib.sha1(f.read()).hexdigest()
        _sha_memo[k] = v
    return v


def all_units():
    """every built C/C++ source under src, lib, compat (not tests/stubs)"""
    out = []
    for top in ("src", "lib", "compat"):
        for d, dirs, files in os.walk(os.path.join(REPO, top)):
            rel = d[len(REPO):]
            if any(rel.endswith(p) or (p + "/") in (rel + "/") for p in SKIP_DIR_PARTS):
                dirs[:] = []
                continue
            dirs[:] = [x for x in dirs if x not in (".libs", ".deps", "tests")]
            fs = set(files)
            for f in files:
                base, ext = os.path.splitext(f)
                if ext in (".cc", ".c", ".cpp"):
                    if base + ".o" in fs or base + ".lo" in fs:
                        out.append(os.path.join(d, f))
    return sorted(out)


_flag_memo = {}


def dir_flags(d, sample, lang):
    """(cwd, flags) of directory d, taken from the nearest Makefile via a dry run for `sample`"""
    key = (d, lang)
    if key in _flag_memo:
        return _flag_memo[key]
    srcdir = d
    while not os.path.exists(os.path.join(d, "Makefile")):
        if d == REPO or len(d) <= len(REPO):
            raise AnalysisBroken("no Makefile at or above %s (tree not configured?)" % srcdir)
        d = os.path.dirname(d)
    # the dry run only reads this Makefile: its result is re-used while the Makefile's content is unchanged
    disk = _flag_disk()
    dk = "%s|%s" % (srcdir, lang)
    mk = sha1(os.path.join(d, "Makefile"))
    hit = disk.get(dk)
    if hit and hit.get("mk") == mk and hit.get("cwd") == d:
        _flag_memo[key] = (d, hit["flags"])
        return _flag_memo[key]
    sample = os.path.relpath(os.path.join(srcdir, sample), d)
    base = os.path.splitext(sample)[0]
    obj = base + (".lo" if os.path.exists(os.path.join(d, base + ".lo")) else ".o")
    p = subprocess.run(["make", "-n", "-W", sample, obj], cwd=d, stdout=subprocess.PIPE,
                       stderr=subprocess.PIPE, universal_newlines=True)
    text = p.stdout.replace("\\\n", " ")
    line = None
    for ln in text.splitlines():
        if re.search(r"(^|\s)(g\+\+|gcc|c\+\+|cc|clang\+\+|clang)\s", ln) and (" -c " in ln):
            line = ln
            break
    if line is None:
        raise AnalysisBroken("cannot derive compile flags in %s for %s: %s" % (d, sample, p.stderr[-300:]))
    try:
        toks = shlex.split(line)
    except ValueError:
        raise AnalysisBroken("cannot tokenize compile line in %s" % d)
    flags = []
    i = 0
    # skip up to and including the compiler token
    while i < len(toks) and not re.search(r"(g\+\+|gcc|c\+\+|cc|clang\+\+|clang)$", toks[i]):
        i += 1
    i += 1
    while i < len(toks):
        t = toks[i]
        if t in ("&&", ";", "||"):
            break
        if t in ("-o", "-MT", "-MF", "-MQ"):
            i += 2
            continue
        if t in ("-c", "-MD", "-MP", "-MMD", "-pipe", "&&", "-fPIC", "-DPIC") or t.startswith("-W") or t.startswith("-O") or t.startswith("-g"):
            i += 1
            continue
        if t.startswith("-std="):
            i += 1
            continue
        if t in ("-I", "-isystem", "-include", "-D", "-U"):
            flags += [t, toks[i + 1]]
            i += 2
            continue
        if t.startswith(("-I", "-D", "-U", "-isystem", "-f", "-m", "-pthread")):
            flags.append(t)
            i += 1
            continue
        if t == ";" or t == "&&" or t.startswith("mv") or t.endswith((".cc", ".c", ".cpp", ".o", ".lo")):
            i += 1
            if t in (";",):
                break
            continue
        i += 1
    flags = [("-std=gnu++17" if lang == "c++" else "-std=gnu11")] + flags + ["-UNDEBUG"]
    _flag_memo[key] = (d, flags)
    disk[dk] = {"mk": mk, "cwd": d, "flags": flags}
    _flag_disk_save()
    return (d, flags)


_flag_disk_cache = None


def _flag_disk():
    global _flag_disk_cache
    if _flag_disk_cache is None:
        try:
            _flag_disk_cache = json.load(open(os.path.join(CACHE, "flags.json")))
        except Exception:
            _flag_disk_cache = {}
    return _flag_disk_cache


def _flag_disk_save():
    if OVERLAY:
        return
    try:
        os.makedirs(CACHE, exist_ok=True)
        tmp = os.path.join(CACHE, "flags.json.%d" % os.getpid())
        json.dump(_flag_disk_cache, open(tmp, "w"))
        os.replace(tmp, os.path.join(CACHE, "flags.json"))
    except OSError:
        pass


def unit_flags(src):
    d, f = os.path.split(src)
    lang = "c" if f.endswith(".c") else "c++"
    return dir_flags(d, f, lang)


def cache_prefix(src, main=False):
    rel = os.path.relpath(src, REPO).replace("/", "__")
    if not main and src in _prefix_override:
        return os.path.join(_prefix_override[src], rel)
    return os.path.join(CACHE, rel)


def _extractor_id():
    return sha1(EXTRACTOR_SRC) or "none"


def _valid(src, cwdflags):
    flags = list(cwdflags[1])
    pre = cache_prefix(src)
    meta = pre + ".meta.json"
    if not (os.path.exists(meta) and os.path.exists(pre + ".cfg.jsonl") and os.path.exists(pre + ".idx.jsonl")):
        return False
    try:
        m = json.load(open(meta))
    except Exception:
        return False
    if m.get("flags") != flags or m.get("hdr") != HDR_CFG or m.get("extractor") != _extractor_id():
        return False
    for p, h in m.get("deps", {}).items():
        if sha1(p) != h:
            return False
    return True


def _extract(src, cwdflags):
    d, flags = cwdflags
    pre = cache_prefix(src)
    for suf in (".cfg.jsonl", ".idx.jsonl", ".meta.json"):
        try:
            os.unlink(pre + suf)
        except OSError:
            pass
    cmd = [SQFACTS, src, "--out=" + pre, "--root=" + REPO, "--hdr=" + ",".join(HDR_CFG)] + ["--overlay=%s=%s" % kv for kv in sorted(OVERLAY.items())] + ["--"] + flags
    p = subprocess.run(cmd, cwd=d, stdout=subprocess.PIPE, stderr=subprocess.PIPE, universal_newlines=True)
    if p.returncode != 0 or not os.path.exists(pre + ".idx.jsonl"):
        return (src, False, (p.stderr or "")[-1500:])
    with open(pre + ".idx.jsonl") as f:
        first = json.loads(f.readline())
    deps = {}
    for path in first.get("deps", []):
        h = sha1(path)
        if h is not None:
            deps[path] = h
    deps[src] = sha1(src)
    json.dump({"flags": flags, "hdr": HDR_CFG, "extractor": _extractor_id(), "deps": deps}, open(pre + ".meta.json", "w"))
    return (src, True, "")


def ensure_built():
    if not os.path.exists(SQFACTS) or os.path.getmtime(SQFACTS) < os.path.getmtime(EXTRACTOR_SRC):
        p = subprocess.run([os.path.join(VERIF, "bin", "setup")], stdout=subprocess.PIPE, stderr=subprocess.STDOUT, universal_newlines=True)
        if p.returncode != 0:
            raise AnalysisBroken("cannot build sqfacts: " + p.stdout[-800:])


def ensure_facts(units, jobs=16, quiet=False):
    """make sure fresh facts exist for every unit; returns dict(stats)"""
    ensure_built()
    os.makedirs(CACHE, exist_ok=True)
    t0 = time.time()
    todo = []
    for u in units:
        if not os.path.exists(u):
            raise AnalysisBroken("anchored unit vanished: " + u)
        fl = unit_flags(u)
        if not _valid(u, fl):
            if OVERLAY:
                if not OVERLAY_CACHE:
                    raise AnalysisBroken("SQ_OVERLAY needs SQ_OVERLAY_CACHE")
                os.makedirs(OVERLAY_CACHE, exist_ok=True)
                _prefix_override[u] = OVERLAY_CACHE      # never write overlaid facts into the main cache
                if _valid(u, fl):
                    continue
            todo.append((u, fl))
    failed = []
    if todo:
        import fcntl
        with open(os.path.join(OVERLAY_CACHE if OVERLAY else CACHE, ".lock"), "w") as lk:
            fcntl.flock(lk, fcntl.LOCK_EX)     # one extractor batch at a time (concurrent checks share the cache)
            todo = [(u, fl) for (u, fl) in todo if not _valid(u, fl)]
            with ThreadPoolExecutor(max_workers=jobs) as ex:
                for src, ok, err in ex.map(lambda a: _extract(*a), todo):
                    if not ok:
                        failed.append((src, err))
    if failed:
        msg = "; ".join("%s: %s" % (s, e.strip().splitlines()[-1] if e.strip() else "?") for s, e in failed[:5])
        detail = "\n".join(e for _, e in failed[:2])
        raise AnalysisBroken("front end failed on %d unit(s): %s\n%s" % (len(failed), msg, detail))
    st = {"units": len(units), "reextracted": len(todo), "extract_s": round(time.time() - t0, 2)}
    if not quiet:
        sys.stderr.write("[facts] units=%d re-extracted=%d in %.1fs\n" % (st["units"], st["reextracted"], st["extract_s"]))
    return st


def src(path):
    """repo-relative -> absolute"""
    return path if path.startswith("/") else os.path.join(REPO, path)
