"""ENUMTABLE helper (DESIGN.md 4.5 (d)): fold CharacterSet-valued expressions of the source into concrete byte sets.

Source-level evaluation of the defining expressions (constructor from a literal / range / list of ranges, +, -, complement(),
rename(), references to other CharacterSet constants or set-returning functions), never execution of squid."""
from . import expr as E
from .units import AnalysisBroken

ALL = frozenset(range(256))


class Folder:
    def __init__(self, ck, facts, assume=()):
        self.ck = ck
        self.facts = facts
        self.assume = list(assume)       # [(matcher, bool)] for configuration-dependent selections
        self.depth = 0

    def fold(self, t):
        self.depth += 1
        try:
            if self.depth > 40:
                raise AnalysisBroken("CharacterSet folding too deep")
            return self._fold(t)
        finally:
            self.depth -= 1

    def _chars(self, s):
        return frozenset(ord(c) & 0xFF for c in s)

    def _fold(self, t):
        t = E.strip(t)
        if not isinstance(t, dict):
            raise AnalysisBroken("cannot fold CharacterSet expression %r" % (t,))
        k = t.get("k")
        if k in ("ctor", "new") and ("CharacterSet" in t.get("f", "") or "CharacterSet" in t.get("t", "")):
            a = t.get("a", [])
            if len(a) == 1 and k == "ctor":
                return self.fold(a[0])      # copy
            if len(a) == 2 and E.strip(a[1]).get("k") == "str":
                return self._chars(E.strip(a[1])["v"])
            if len(a) == 3 and E.const(a[1]) is not None and E.const(a[2]) is not None:
                lo, hi = E.const(a[1]) & 0xFF, E.const(a[2]) & 0xFF
                return frozenset(range(lo, hi + 1)) if lo <= hi else frozenset([hi])    # addRange(low, high) always sets `high` (C50 S2)
            if len(a) == 2:
                # initializer_list<pair<uint8_t,uint8_t>>
                vals = [E.const(n) for n in E.walk(a[1]) if n.get("k") == "lit" and "v" in n]
                pairs = []
                nums = [n for n in self._lits_in_order(a[1])]
                if nums and len(nums) % 2 == 0:
                    out = set()
                    for i in range(0, len(nums), 2):
                        lo, hi = nums[i] & 0xFF, nums[i + 1] & 0xFF
                        out |= set(range(lo, hi + 1)) if lo <= hi else {hi}
                    return frozenset(out)
            raise AnalysisBroken("unrecognised CharacterSet constructor form: %s" % E.key(t)[:120])
        if k == "call":
            f = t.get("f", "")
            last = f.split("::")[-1]
            if last == "operator+" and "o" in t:
                return self.fold(t["o"]) | self.fold(t["a"][0])
            if last == "operator-" and "o" in t:
                return self.fold(t["o"]) - self.fold(t["a"][0])
            if last == "operator+" and len(t.get("a", [])) == 2:
                return self.fold(t["a"][0]) | self.fold(t["a"][1])
            if last == "operator-" and len(t.get("a", [])) == 2:
                return self.fold(t["a"][0]) - self.fold(t["a"][1])
            if last == "complement" and "o" in t:
                return ALL - self.fold(t["o"])
            if last == "rename" and "o" in t:
                return self.fold(t["o"])
            if last in ("add", "remove") and "o" in t and len(t.get("a", [])) == 1 and E.const(t["a"][0]) is not None:
                base = self.fold(t["o"])
                c = frozenset([E.const(t["a"][0]) & 0xFF])
                return (base | c) if last == "add" else (base - c)
            return self.fold_function(f)
        if k == "ref":
            if t.get("dk") in ("global",) or "::" in t.get("d", ""):
                v = self.facts.var(t["d"])
                return self.fold(v["init"])
            raise AnalysisBroken("cannot fold local reference %s outside its function" % t.get("d"))
        if k == "un" and t.get("op") == "*":
            return self.fold(t.get("e"))
        if k == "cond":
            r = E.eval3(t.get("c"), self._leaf)
            if r is None:
                raise AnalysisBroken("configuration-dependent CharacterSet selection not covered by the assumption: %s" % E.key(t.get("c")))
            return self.fold(t.get("t") if r else t.get("f"))
        raise AnalysisBroken("cannot fold CharacterSet expression: %s" % E.key(t)[:120])

    def _lits_in_order(self, t):
        """integer literals of an initializer tree in source order (depth-first, left to right)"""
        out = []

        def rec(n):
            n2 = E.strip(n)
            if not isinstance(n2, dict):
                return
            if n2.get("k") == "lit":
                out.append(n2["v"])
                return
            if isinstance(n, dict) and n.get("k") in ("icast", "cast") and "v" in n:
                out.append(n["v"])
                return
            for name in ("a", "ch"):
                for c in n2.get(name, []) or []:
                    rec(c)
            for name in ("e", "l", "r"):
                if isinstance(n2.get(name), dict):
                    rec(n2[name])
        rec(t)
        return out

    def _leaf(self, t):
        for m, b in self.assume:
            if m(t):
                return b
        return None

    def fold_function(self, name):
        """the set returned by a CharacterSet-returning function (static local + return, possibly configuration-dependent)"""
        fn = self.facts.fn(name)
        fl = self.ck.flow(fn, assume=self.assume)
        rets = [s for s in fl.sites if s.ev.get("e") == "ret"]
        if not rets:
            raise AnalysisBroken("no return in %s" % name)
        defs = self.ck.local_defs(fn)
        vals = set()
        for s in rets:
            x = E.strip(s.ev.get("x"))
            vals.add(self._fold_local(fn, defs, x))
        if len(vals) != 1:
            raise AnalysisBroken("%s returns different sets on different paths under the given assumption" % name)
        return vals.pop()

    def _fold_local(self, fn, defs, x):
        x = E.strip(x)
        if isinstance(x, dict) and x.get("k") == "un" and x.get("op") == "*":
            x = E.strip(x.get("e"))
        if isinstance(x, dict) and x.get("k") == "ref" and x.get("dk") in ("local", "static") and x["d"] in defs:
            ds = defs[x["d"]]
            if len(ds) != 1:
                raise AnalysisBroken("local %s in %s has %d definitions" % (x["d"], fn.name, len(ds)))
            return self._fold_local(fn, defs, ds[0])
        if isinstance(x, dict) and x.get("k") == "call" and "o" in x and x.get("f", "").split("::")[-1] in ("rename", "add", "remove", "complement", "operator+", "operator-"):
            # a chain rooted in a local (static const auto x = CharacterSet(Base()).add('?').rename(..)): fold the root through the local definitions
            o = E.strip(x["o"])
            if isinstance(o, dict) and o.get("k") == "ref" and o.get("dk") in ("local", "static") and o["d"] in defs:
                base = self._fold_local(fn, defs, o)
                return self.fold(dict(x, o={"k": "ctor", "f": "CharacterSet::CharacterSet", "t": "CharacterSet", "a": [{"k": "lit", "v": 0}, {"k": "str", "v": "".join(chr(c) for c in sorted(base))}]}))
        return self.fold(x)


def show(s):
    out = []
    for c in sorted(s):
        out.append(chr(c) if 33 <= c < 127 else "\\x%02x" % c)
    return "".join(out)
