"""Loading per-unit fact files and whole-program indexes."""
import json
import os

from . import units
from .units import AnalysisBroken


class Fn:
    """one function's facts (CFG + events)"""

    def __init__(self, d, unit):
        self.d = d
        self.unit = unit
        self.name = d["n"]
        self.full = d.get("full", d["n"])
        self.file = d["f"]
        self.line = d["l"]
        self.sig = d.get("sig", "")
        self.tmpl = d.get("tmpl", 0)
        self.entry = d["entry"]
        self.exit = d["exit"]
        self.blocks = {b["id"]: b for b in d["blocks"]}
        self.params = d.get("params", [])
        self._inline_returned_locals()

    def _inline_returned_locals(self):
        """`T v = <init>; return v;` (v declared in the returning block, defined nowhere else, nothing in between) is presented to the rules as
        `return <init>;` -- the two spellings are the same program, and rules that look at what a function returns should not depend on which is used"""
        ndefs = {}
        for b in self.blocks.values():
            for ev in b["ev"]:
                if ev.get("e") == "decl":
                    ndefs[ev["d"]] = ndefs.get(ev["d"], 0) + 1
                elif ev.get("e") == "asg":
                    l = ev.get("lhs") or {}
                    while isinstance(l, dict) and l.get("k") in ("paren", "cast", "icast"):
                        l = l.get("e")
                    if isinstance(l, dict) and l.get("k") == "ref":
                        ndefs[l.get("d")] = ndefs.get(l.get("d"), 0) + 2

        def unwrap(x):
            while isinstance(x, dict) and (x.get("k") in ("paren", "cast", "icast") or (x.get("k") == "ctor" and len(x.get("a", [])) == 1)):
                x = x.get("e") if x.get("k") != "ctor" else x["a"][0]
            return x

        def mentions(t, name):
            if isinstance(t, dict):
                if t.get("k") == "ref" and t.get("d") == name:
                    return True
                return any(mentions(v, name) for v in t.values())
            if isinstance(t, list):
                return any(mentions(v, name) for v in t)
            return False
        for b in self.blocks.values():
            evs = b["ev"]
            for i, ev in enumerate(evs):
                if ev.get("e") != "ret":
                    continue
                x = unwrap(ev.get("x"))
                if not (isinstance(x, dict) and x.get("k") == "ref" and x.get("dk") == "local" and ndefs.get(x["d"]) == 1):
                    continue
                name = x["d"]
                j = [k for k in range(i) if evs[k].get("e") == "decl" and evs[k].get("d") == name and evs[k].get("init") is not None]
                if not j:
                    continue
                between = evs[j[0] + 1:i]
                copies = lambda e: e.get("e") == "call" and isinstance(e.get("x"), dict) and e["x"].get("k") == "ctor" and unwrap(e["x"]) is not e["x"] and mentions(e["x"], name)
                if all(copies(e) for e in between):       # nothing but the copy into the return slot happens in between
                    ev["x_via_local"] = name
                    ev["x"] = evs[j[0]]["init"]

    @property
    def rel(self):
        return os.path.relpath(self.file, units.REPO)

    def where(self, line=None):
        return "%s:%d" % (self.rel, line if line is not None else self.line)

    def __repr__(self):
        return "<Fn %s %s>" % (self.name, self.where())


class Facts:
    """facts of a set of units (cfg) + lazily scanned whole-program index"""

    def __init__(self, unit_list, whole_program=False, jobs=16):
        self.units = [units.src(u) for u in unit_list]
        self.whole = whole_program
        all_u = units.all_units() if whole_program else []
        need = sorted(set(self.units) | set(all_u))
        self.stats = units.ensure_facts(need, jobs=jobs)
        self.all_units = need
        self._fns = None
        self.loaded_functions = 0
        self.touched = {}       # definitions handed out by fns()/fn(): what a module looked at (bin/automut picks its candidate lines here)

    def _load(self):
        if self._fns is not None:
            return
        self._fns = {}
        self._vars = {}
        seen = set()
        for u in self.units:
            p = units.cache_prefix(u) + ".cfg.jsonl"
            with open(p) as f:
                for ln in f:
                    d = json.loads(ln)
                    if "var" in d:
                        self._vars.setdefault(d["var"], []).append(d)
                        continue
                    key = (d["f"], d["l"], d.get("full", d["n"]))
                    if key in seen:
                        continue
                    seen.add(key)
                    self._fns.setdefault(d["n"], []).append(Fn(d, u))
                    self.loaded_functions += 1

    def fns(self, name, sig=None, file=None, tmpl=None):
        """all loaded definitions with this qualified name (templates: pattern and instantiations)"""
        self._load()
        out = []
        for f in self._fns.get(name, []):
            if sig is not None and sig not in f.sig:
                continue
            if file is not None and not f.file.endswith(file):
                continue
            if tmpl is not None and f.tmpl != tmpl:
                continue
            out.append(f)
            self.touched[(f.name, f.file, f.line)] = f
        return out

    def fn(self, name, sig=None, file=None, tmpl=None):
        """exactly one definition, else the anchor is considered vanished/ambiguous (exit 2)"""
        c = self.fns(name, sig, file, tmpl)
        if len(c) == 0:
            raise AnalysisBroken("anchor function not found: %s%s" % (name, " sig~" + sig if sig else ""))
        if len(c) > 1:
            # identical template instantiations / pattern: prefer non-dependent
            nd = [x for x in c if x.tmpl != 1]
            if len(nd) >= 1 and len(set((x.file, x.line) for x in nd)) == 1:
                return nd[0]
            if len(set((x.file, x.line) for x in c)) == 1:
                return c[0]
            raise AnalysisBroken("anchor function ambiguous: %s (%s)" % (name, ", ".join(x.where() + " (" + x.sig + ")" for x in c)))
        return c[0]

    def var(self, name):
        """initialiser tree record of a namespace-scope/static variable defined in a loaded unit"""
        self._load()
        c = self._vars.get(name, [])
        if not c:
            raise AnalysisBroken("anchor variable not found: %s" % name)
        return c[0]

    def enum(self, name):
        """{enumerator: value} of an enum defined under the repo (from the loaded units' index)"""
        if not hasattr(self, "_enums"):
            self._enums = {}
            for u in self.units:
                with open(units.cache_prefix(u) + ".idx.jsonl") as f:
                    for ln in f:
                        if ln.startswith('{"enum"'):
                            d = json.loads(ln)
                            self._enums.setdefault(d["enum"], dict((a, b) for a, b in d["vals"]))
        if name not in self._enums:
            raise AnalysisBroken("anchor enum not found: %s" % name)
        return self._enums[name]

    def enum_with(self, enumerator):
        """{enumerator: value} of the (possibly anonymous/typedef'd) enum that declares `enumerator`"""
        hits = []
        for u in self.units:
            with open(units.cache_prefix(u) + ".idx.jsonl") as f:
                for ln in f:
                    if ln.startswith('{"enum"') and ('"%s"' % enumerator) in ln:
                        d = json.loads(ln)
                        vals = dict((a, b) for a, b in d["vals"])
                        if enumerator in vals and vals not in hits:
                            hits.append(vals)
        if len(hits) != 1:
            raise AnalysisBroken("enum declaring %s: found %d candidates" % (enumerator, len(hits)))
        return hits[0]

    def all_fns(self, pred=None):
        self._load()
        for lst in self._fns.values():
            for f in lst:
                if pred is None or pred(f):
                    self.touched[(f.name, f.file, f.line)] = f
                    yield f

    # ---- whole-program index -------------------------------------------------------------
    def _idx_lines(self, needle):
        for u in self.all_units:
            p = units.cache_prefix(u) + ".idx.jsonl"
            with open(p) as f:
                for ln in f:
                    if needle in ln:
                        yield u, ln

    def callers(self, callee):
        """[(caller name, file, line-of-call, unit)] over the analysed program (direct calls and
        address-taken references)"""
        if not self.whole:
            raise AnalysisBroken("callers() needs whole_program facts")
        out = {}
        q = json.dumps(callee)
        for u, ln in self._idx_lines(q):
            d = json.loads(ln)
            if "n" not in d:
                continue
            for c, l in d.get("c", []):
                if c == callee:
                    out[(d["n"], d["f"], l, "call")] = u
            for c, l in d.get("r", []):
                if c == callee:
                    out[(d["n"], d["f"], l, "ref")] = u
        return sorted((n, f, l, k, u) for (n, f, l, k), u in out.items())

    def writers(self, field):
        """[(writer fn, file, line, op, const)] of a field/global over the analysed program"""
        if not self.whole:
            raise AnalysisBroken("writers() needs whole_program facts")
        out = set()
        q = json.dumps(field)
        for u, ln in self._idx_lines(q):
            d = json.loads(ln)
            if "n" not in d:
                continue
            for w in d.get("w", []):
                if w[0] == field:
                    out.add((d["n"], d["f"], w[4], w[2], w[3]))
        return sorted(out, key=lambda t: (t[1], t[2], t[0]))

    def defs(self, name):
        """definitions (file,line,sig,tmpl) of a function name anywhere in the program"""
        out = set()
        q = '{"n":' + json.dumps(name) + ','
        for u, ln in self._idx_lines(q):
            d = json.loads(ln)
            if d.get("n") == name:
                out.add((d["f"], d["l"], d.get("sig", ""), d.get("tmpl", 0)))
        return sorted(out)
