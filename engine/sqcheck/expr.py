"""Expression-tree utilities: walking, canonical keys, condition normalisation, matchers."""


def strip(t):
    while isinstance(t, dict) and t.get("k") in ("icast", "cast"):
        t = t.get("e")
    return t


def children(t):
    if not isinstance(t, dict):
        return
    k = t.get("k")
    for name in ("e", "l", "r", "b", "i", "o", "c", "t", "f", "n", "fe", "of"):
        v = t.get(name)
        if isinstance(v, dict):
            yield v
    for name in ("a", "ch"):
        v = t.get(name)
        if isinstance(v, list):
            for x in v:
                if isinstance(x, dict):
                    yield x


def walk(t):
    if not isinstance(t, dict):
        return
    st = [t]
    while st:
        x = st.pop()
        yield x
        st.extend(children(x))


def const(t):
    """integer constant value of a tree if the front end could evaluate it"""
    t0 = t
    if not isinstance(t0, dict):
        return None
    if "v" in t0 and t0.get("k") not in ("str", "flit"):
        return t0["v"]
    t = strip(t0)
    if isinstance(t, dict) and "v" in t and t.get("k") not in ("str", "flit"):
        return t["v"]
    if isinstance(t, dict) and t.get("k") == "null":
        return 0
    if isinstance(t, dict) and t.get("k") == "call" and t.get("f") in ("std::numeric_limits::max", "std::numeric_limits::min") and t.get("iw") and not t.get("a"):
        iw = t["iw"]
        if t["f"].endswith("max"):
            return (1 << (abs(iw) - 1)) - 1 if iw < 0 else (1 << iw) - 1
        return -(1 << (abs(iw) - 1)) if iw < 0 else 0
    return None


def is_zero(t):
    t = strip(t)
    if not isinstance(t, dict):
        return False
    if t.get("k") == "null":
        return True
    if t.get("k") == "ctor" and t.get("f", "").split("::")[0] in ("RefCount", "CbcPointer") and (not t.get("a") or (len(t["a"]) == 1 and is_zero(t["a"][0]))):
        return True     # RefCount<T>(nullptr): comparing against it is a null test
    return t.get("k") in ("lit",) and t.get("v") == 0 or (const(t) == 0 and t.get("k") in ("lit", "ref", "un", "bin", "sizeof", "x"))


def short(name):
    return name.split("::")[-1] if name else name


COMMUTATIVE = ("+", "*", "&", "|", "^", "==", "!=")


def ckey(t):
    """like key(), but the operands of commutative operators are put in a canonical order at every level, so that `a + b` and
    `b + a` (or `x == y` / `y == x`) render the same; use it for *shape* comparisons of side-effect-free expressions"""
    t = strip(t)
    if isinstance(t, dict) and t.get("k") == "bin":
        l, r = ckey(t.get("l")), ckey(t.get("r"))
        if t.get("op") in COMMUTATIVE and r < l:
            l, r = r, l
        return "(%s %s %s)" % (l, t.get("op"), r)
    if isinstance(t, dict) and t.get("k") == "un":
        return "%s%s" % (t.get("op"), ckey(t.get("e")))
    return key(t)


def cbin(op, a, b):
    """ckey-compatible rendering of `a op b` from two already rendered operands"""
    if op in COMMUTATIVE and b < a:
        a, b = b, a
    return "(%s %s %s)" % (a, op, b)


def key(t):
    """canonical, position-free rendering of an expression tree"""
    t = strip(t)
    if t is None:
        return "∅"
    if not isinstance(t, dict):
        return str(t)
    k = t.get("k")
    if k == "lit":
        return str(t.get("v"))
    if k == "str":
        return '"%s"' % t.get("v")
    if k == "flit":
        return str(t.get("v"))
    if k == "null":
        return "null"
    if k == "this":
        return "this"
    if k == "ref":
        return short(t["d"]) if t.get("dk") in ("local", "param", "static") else t["d"]
    if k == "uref":
        return t["d"]
    if k == "mem":
        b = t.get("b")
        if isinstance(b, dict) and strip(b).get("k") == "this":
            return short(t["m"])
        return "%s.%s" % (key(b), short(t["m"]))
    if k == "call":
        a = ",".join(key(x) for x in t.get("a", []))
        f = t.get("f", "?")
        if "o" in t:
            ob = t.get("o")
            if isinstance(ob, dict) and strip(ob).get("k") == "this":
                return "%s(%s)" % (short(f), a)
            return "%s.%s(%s)" % (key(ob), short(f), a)
        return "%s(%s)" % (f, a)
    if k == "ctor":
        return "%s{%s}" % (short(t.get("f", "?")), ",".join(key(x) for x in t.get("a", [])))
    if k == "new":
        return "new %s(%s)" % (t.get("t"), ",".join(key(x) for x in t.get("a", [])))
    if k == "delete":
        return "delete " + key(t.get("e"))
    if k == "bin":
        return "(%s %s %s)" % (key(t.get("l")), t.get("op"), key(t.get("r")))
    if k == "un":
        return "%s%s" % (t.get("op"), key(t.get("e")))
    if k == "cond":
        return "(%s ? %s : %s)" % (key(t.get("c")), key(t.get("t")), key(t.get("f")))
    if k == "idx":
        return "%s[%s]" % (key(t.get("b")), key(t.get("i")))
    if k == "sizeof":
        return "sizeof=%s" % t.get("v")
    if k == "init":
        return "{%s}" % ",".join(key(x) for x in t.get("a", []))
    if k == "lambda":
        return "lambda@%s" % t.get("l")
    if k == "throw":
        return "throw " + key(t.get("e"))
    if k == "cut":
        return "…"
    if k == "x":
        return "%s(%s)" % (t.get("c"), ",".join(key(x) for x in t.get("ch", [])))
    return k or "?"


def mentions(t):
    """names of decls (locals/params by bare name, members/functions/globals qualified) in a tree"""
    out = set()
    for x in walk(t):
        k = x.get("k")
        if k == "ref":
            out.add(x["d"])
        elif k == "mem":
            out.add(x["m"])
        elif k in ("call", "ctor"):
            if x.get("f"):
                out.add(x["f"])
        elif k == "uref":
            out.add(x["d"])
    return out


def calls_in(t):
    return [x for x in walk(t) if x.get("k") in ("call", "ctor")]


def root_decl(t):
    """(kind, name) of the object an lvalue expression designates: ('ref', d) | ('mem', m) | (None, None)"""
    t = strip(t)
    while isinstance(t, dict):
        k = t.get("k")
        if k == "ref":
            return ("ref", t["d"])
        if k == "mem":
            return ("mem", t["m"])
        if k == "idx":
            t = strip(t.get("b"))
            continue
        if k == "un" and t.get("op") == "*":
            t = strip(t.get("e"))
            continue
        if k == "call" and t.get("f", "").split("::")[-1] in ("operator->", "operator*", "operator[]") and "o" in t:
            t = strip(t.get("o"))
            continue
        break
    return (None, None)


# ------------------------------------------------------------------ condition normalisation

_EQ_CALLS = ("operator==",)
_NE_CALLS = ("operator!=",)


def _mkbin(op, l, r):
    return {"k": "bin", "op": op, "l": l, "r": r}


def norm(t, pol=True):
    """normalise a leaf condition; returns (tree, polarity)"""
    while True:
        t = strip(t)
        if not isinstance(t, dict):
            return t, pol
        k = t.get("k")
        if k == "un" and t.get("op") == "!":
            t = t.get("e")
            pol = not pol
            continue
        if k == "call":
            fn = t.get("f", "").split("::")[-1]
            if fn == "operator!" and "o" in t:
                t = t["o"]
                pol = not pol
                continue
            if (fn == "operator bool" or (fn.startswith("operator ") and fn[9:10].isalpha() and not t.get("a"))) and "o" in t:
                t = t["o"]      # conversion operator (operator bool, std::atomic<T>::operator T): test the object itself
                continue
            if fn in _NE_CALLS and "o" in t and len(t.get("a", [])) == 1:
                t = _mkbin("==", t["o"], t["a"][0])
                pol = not pol
                continue
            if fn in _EQ_CALLS and "o" in t and len(t.get("a", [])) == 1:
                t = _mkbin("==", t["o"], t["a"][0])
                continue
            if fn in _EQ_CALLS + _NE_CALLS and "o" not in t and len(t.get("a", [])) == 2:
                if fn in _NE_CALLS:
                    pol = not pol
                t = _mkbin("==", t["a"][0], t["a"][1])
                continue
            return t, pol
        if k == "bin":
            op = t.get("op")
            l, r = t.get("l"), t.get("r")
            if op == "!=":
                t = _mkbin("==", l, r)
                pol = not pol
                continue
            if op == "==":
                # x == 0  ->  !x ; x == true -> x
                if is_zero(r) and not is_zero(l):
                    t = l
                    pol = not pol
                    continue
                if is_zero(l) and not is_zero(r):
                    t = r
                    pol = not pol
                    continue
                sr = strip(r)
                if isinstance(sr, dict) and sr.get("k") == "lit" and sr.get("b") and sr.get("v") == 1:
                    t = l
                    continue
                # constant on the right
                if const(l) is not None and const(r) is None:
                    t = _mkbin("==", r, l)
                elif const(l) is None and const(r) is None and key(r) < key(l):
                    t = _mkbin("==", r, l)      # canonical operand order: `a == b` and `b == a` are one atom
                return t, pol
            if op == ">=":
                return _mkbin("<", l, r), (not pol)
            if op == ">":
                return _mkbin("<", r, l), pol
            if op == "<=":
                return _mkbin("<", r, l), (not pol)
            return t, pol
        return t, pol


def implied(cond, val, known=None):
    """leaf facts [(tree, bool)] that necessarily hold when `cond` evaluates to `val`; known(leaf tree) -> True/False/None gives the values of
    sub-conditions already decided on this path (short-circuit evaluation of this very expression): `A || B` true with A known false implies B,
    `A && B` false with A known true implies !B"""
    out = []
    st = [(cond, val)]
    while st:
        t, v = st.pop()
        t, v = norm(t, v)
        if isinstance(t, dict) and t.get("k") == "bin" and t.get("op") in ("&&", "||"):
            if t["op"] == "&&" and v:
                st.append((t.get("l"), True))
                st.append((t.get("r"), True))
            elif t["op"] == "||" and not v:
                st.append((t.get("l"), False))
                st.append((t.get("r"), False))
            elif known is not None:
                blocked = (t["op"] == "&&")          # '&&' false: a side known true forces the other false; '||' true: a side known false forces the other true
                kl, kr = eval3(t.get("l"), known), eval3(t.get("r"), known)
                if kl is blocked and kl is not None:
                    st.append((t.get("r"), v))
                elif kr is blocked and kr is not None:
                    st.append((t.get("l"), v))
            continue
        if t is not None:
            out.append((t, v))
    return out


def leaves(cond):
    """all leaf atoms of a (possibly compound) condition, normalised trees"""
    out = []
    st = [cond]
    while st:
        t, _ = norm(st.pop(), True)
        if isinstance(t, dict) and t.get("k") == "bin" and t.get("op") in ("&&", "||"):
            st.append(t.get("l"))
            st.append(t.get("r"))
        elif t is not None:
            out.append(t)
    return out


def eval3(cond, leaf_eval):
    """three-valued evaluation of a condition given leaf_eval(tree)->True/False/None"""
    t, pol = norm(cond, True)
    if isinstance(t, dict) and t.get("k") == "bin" and t.get("op") in ("&&", "||"):
        a = eval3(t.get("l"), leaf_eval)
        b = eval3(t.get("r"), leaf_eval)
        if t["op"] == "&&":
            r = False if (a is False or b is False) else (True if (a is True and b is True) else None)
        else:
            r = True if (a is True or b is True) else (False if (a is False and b is False) else None)
    else:
        c = const(t) if isinstance(t, dict) else None
        if c is not None and isinstance(t, dict) and t.get("k") in ("lit",):
            r = bool(c)
        else:
            r = leaf_eval(t)
    if r is None:
        return None
    return r if pol else (not r)


# ------------------------------------------------------------------ matchers (predicates on trees)

class M:
    """composable predicate over expression trees"""

    def __init__(self, fn, desc, refs=()):
        self.fn = fn
        self.desc = desc
        self.refs = frozenset(refs)     # bare (local/param/global) names this matcher can only ever match through

    @staticmethod
    def _refs(o):
        return getattr(o, "refs", frozenset())

    def __call__(self, t):
        try:
            return bool(self.fn(t))
        except (KeyError, TypeError, AttributeError):
            return False

    def __and__(self, o):
        return M(lambda t: self(t) and o(t), "(%s and %s)" % (self.desc, o.desc), self.refs | M._refs(o))

    def __or__(self, o):
        return M(lambda t: self(t) or o(t), "(%s or %s)" % (self.desc, o.desc), self.refs & M._refs(o))

    def __invert__(self):
        return M(lambda t: not self(t), "not " + self.desc)

    def __repr__(self):
        return self.desc


def m_mentions(*names):
    """tree mentions every given decl (qualified member/function/global name, or bare local name)"""
    s = set(names)
    return M(lambda t: s <= mentions(t), "mentions(%s)" % ",".join(names), [n for n in names if "::" not in n])


def m_mentions_any(*names):
    s = set(names)
    return M(lambda t: bool(s & mentions(t)), "mentions-any(%s)" % ",".join(names))


def m_calls(name):
    """tree is (after stripping) a call of `name`"""
    return M(lambda t: strip(t).get("k") in ("call", "ctor") and strip(t).get("f") == name, "call(%s)" % name)


def m_is_ref(name):
    return M(lambda t: strip(t).get("k") == "ref" and strip(t)["d"] == name, "ref(%s)" % name, [name] if "::" not in name else [])


def m_is_mem(name):
    """member access; a bare name (no ::) matches the member of any class"""
    if "::" in name:
        return M(lambda t: strip(t).get("k") == "mem" and strip(t)["m"] == name, "mem(%s)" % name)
    return M(lambda t: strip(t).get("k") == "mem" and strip(t)["m"].split("::")[-1] == name, "mem(%s)" % name)


def m_const(v):
    return M(lambda t: const(t) == v, "const(%s)" % v)


def m_str(v):
    return M(lambda t: strip(t).get("k") == "str" and strip(t).get("v") == v, "str(%r)" % v)


def m_any():
    return M(lambda t: True, "any")


def m_cmp(op, lhs, rhs):
    """normalised comparison leaf: op in ('==','<'); lhs/rhs matchers"""
    if op == "==":      # equality is symmetric: accept the operands in either order
        return M(lambda t: strip(t).get("k") == "bin" and strip(t).get("op") == op and
                 ((lhs(strip(t)["l"]) and rhs(strip(t)["r"])) or (lhs(strip(t)["r"]) and rhs(strip(t)["l"]))),
                 "(%s %s %s)" % (lhs.desc, op, rhs.desc), M._refs(lhs) | M._refs(rhs))
    return M(lambda t: strip(t).get("k") == "bin" and strip(t).get("op") == op and lhs(strip(t)["l"]) and rhs(strip(t)["r"]),
             "(%s %s %s)" % (lhs.desc, op, rhs.desc), M._refs(lhs) | M._refs(rhs))


def m_key(s):
    return M(lambda t: key(t) == s, "key(%s)" % s)
