"""Path-sensitive must-fact analysis over one function's CFG (DESIGN.md 4.1-4.3).

The CFG is explored as a product with the abstract values of a few *tracked locals*
(constant propagation + branch folding, so that `flag = true; ... if (flag)` idioms do not
create infeasible paths).  On that product graph a forward *must* analysis computes, for
every program point, the set of facts that hold on **every** path reaching it:

  ('A', key, val)   the last evaluation of branch atom `key` gave `val`, and nothing the atom
                    mentions was written since
  ('P', name)       a marker event `name` was passed

All rule primitives (UNREACH/dominance, must-pass/ORDER, BALANCE via env hooks, case
exclusion via switch assumptions) are queries on the resulting site table.
"""
from collections import deque

from . import expr as E

NORET = {
    "xassert", "fatal", "fatalf", "fatal_dump", "fatalvf", "ReportAndThrow_", "abort", "exit", "_exit",
    "std::terminate", "std::rethrow_exception", "__assert_fail", "std::abort", "std::exit",
}

UNKNOWN = None
NZ = "NZ"


class Site:
    __slots__ = ("fn", "bid", "idx", "ev", "env", "facts", "node", "flow")

    def __init__(self, flow, bid, idx, ev, env, facts, node):
        self.flow = flow
        self.fn = flow.fn
        self.bid = bid
        self.idx = idx
        self.ev = ev
        self.env = env
        self.facts = facts
        self.node = node

    @property
    def line(self):
        return self.ev.get("l", self.fn.line)

    def where(self):
        return self.fn.where(self.line)

    def has(self, matcher, val=True):
        """a fact 'atom matching `matcher` last evaluated to `val`' holds on all paths to here"""
        self.flow.need_names(matcher)
        tr = self.flow.trees
        for f in self.facts:
            if f[0] == "A" and f[2] == val and matcher(tr[f[1]]):
                return True
        return False

    def had(self, matcher, val=True):
        """on every path the most recent evaluation of an atom matching `matcher` gave `val` (even if its operands were
        modified since: use for status results of calls such as tok.skip(), parse(), lock())"""
        self.flow.need_names(matcher)
        tr = self.flow.trees
        for f in self.facts:
            if f[0] == "H" and f[2] == val and matcher(tr[f[1]]):
                return True
        return False

    def passed(self, name):
        return ("P", name) in self.facts or self.env.get("#" + name) == 1

    def tracked(self, name):
        """path-sensitive last value of a tracked atom (True/False) or None"""
        return self.env.get("@" + name)

    def fact_keys(self):
        return sorted(("%s=%s" % (f[1], "T" if f[2] else "F")) if f[0] == "A" else "passed:" + f[1] for f in self.facts if f[0] in ("A", "P"))

    def desc(self):
        return describe_event(self.ev)


def describe_event(ev):
    e = ev.get("e")
    if e == "call":
        return "call " + E.key(ev.get("x"))
    if e == "asg":
        return "%s %s %s" % (E.key(ev.get("lhs")), ev.get("op"), E.key(ev.get("rhs")) if ev.get("rhs") is not None else "")
    if e == "ret":
        return "return " + (E.key(ev.get("x")) if ev.get("x") is not None else "")
    if e == "throw":
        return "throw " + E.key(ev.get("x"))
    if e == "decl":
        return "decl %s = %s" % (ev.get("d"), E.key(ev.get("init")))
    if e == "exit":
        return "exit(%s)" % ev.get("kind")
    return str(e)


def default_classify(rhs, env, tracked):
    if rhs is None:
        return UNKNOWN
    c = E.const(rhs)
    if c is not None:
        return ("c", c)
    t = E.strip(rhs)
    if not isinstance(t, dict):
        return UNKNOWN
    k = t.get("k")
    if k == "null":
        return ("c", 0)
    if k in ("str", "new", "lambda"):
        return NZ
    if k == "un" and t.get("op") == "&":
        return NZ
    if k == "ref" and t.get("d") in tracked:
        return env.get(t["d"], UNKNOWN)
    if k == "cond":
        a = default_classify(t.get("t"), env, tracked)
        b = default_classify(t.get("f"), env, tracked)
        if a == b:
            return a
        if a is not None and b is not None and truth(a) is True and truth(b) is True:
            return NZ
    return UNKNOWN


def truth(av):
    if av is None:
        return None
    if av == NZ:
        return True
    if isinstance(av, tuple) and av[0] == "c":
        return av[1] != 0
    return None


def names_in(fn):
    """every bare declaration name (local, parameter, global, enumerator) the function's facts mention"""
    c = getattr(fn, "_names", None)
    if c is None:
        c = set(p.get("d") for p in fn.params)
        for b in fn.blocks.values():
            for ev in b["ev"]:
                if ev.get("e") == "decl":
                    c.add(ev.get("d"))
                for k in ("x", "lhs", "rhs", "init"):
                    if ev.get(k) is not None:
                        c |= {n.get("d") if n.get("k") == "ref" else n.get("f") for n in E.walk(ev[k]) if n.get("k") in ("ref", "call", "ctor")}
            t = b.get("term")
            if t and t.get("c") is not None:
                c |= {n.get("d") if n.get("k") == "ref" else n.get("f") for n in E.walk(t["c"]) if n.get("k") in ("ref", "call", "ctor")}
        fn._names = c
    return c


class Flow:
    def need_names(self, matcher):
        """a matcher tied to a bare name that the function no longer mentions anywhere can never match: the rule instance lost its
        anchor (e.g. a local was renamed) -> analysis broken (exit 2), not a verdict"""
        refs = getattr(matcher, "refs", None)
        if refs:
            missing = [r for r in refs if r not in names_in(self.fn)]
            if missing:
                from .units import AnalysisBroken
                raise AnalysisBroken("rule instance refers to %s in %s, which that function no longer mentions (renamed local? re-confirm the instance)"
                                     % (", ".join("'%s'" % m for m in sorted(missing)), self.fn.name))

    def __init__(self, fn, tracked=(), assume=(), switch_assume=None, markers=None, classify=None,
                 noret=NORET, on_event=None, on_edge=None, init_env=None, start=None, max_nodes=200000,
                 track_atoms=None, track_markers=(), track_history=False, prune_fields=False):
        self.fn = fn
        # prune_fields: also treat atoms over plain data members (no calls) as stable between their evaluation and a re-test,
        # i.e. assume no callee in between changes them (writes inside this function still kill the fact)
        self.prune_fields = prune_fields
        self.tracked = set(tracked)
        for nm in self.tracked:
            if nm not in names_in(fn):
                from .units import AnalysisBroken
                raise AnalysisBroken("tracked local '%s' is not mentioned in %s any more (renamed? re-confirm the rule instance)" % (nm, fn.name))
        self.assume = list(assume)
        self.switch_assume = switch_assume
        self.markers = markers or {}
        self.classify = classify
        self.noret = noret
        self.on_event = on_event
        self.on_edge = on_edge
        self.trees = {}
        self.mention_cache = {}
        self.track_atoms = dict(track_atoms or {})      # name -> matcher ; env['@name'] = last value (path-sensitive)
        self.track_markers = set(track_markers)         # marker names kept path-sensitively as env['#name'] = 1
        self.track_mentions = {}
        self.track_history = track_history             # tracked atoms keep their last value even if operands were written since
        self.max_nodes = max_nodes
        self.IN = {}
        self.pred = {}
        self.sites = []
        self.edges_pruned = 0
        self.edges_taken = 0
        env0 = dict(init_env or {})
        self.start = (start if start is not None else fn.entry, self._ek(env0))
        self._run()
        self._collect()

    # ---------------------------------------------------------------- helpers
    @staticmethod
    def _ek(env):
        return tuple(sorted(env.items(), key=lambda kv: kv[0]))

    def _fact(self, tree, val):
        k = E.key(tree)
        if k not in self.trees:
            self.trees[k] = tree
            self.mention_cache[k] = E.mentions(tree)
        return ("A", k, val)

    def _add_fact(self, facts, tree, val):
        f = self._fact(tree, val)
        facts.discard(("A", f[1], not val))
        facts.add(f)
        # history fact: "the most recent evaluation of this atom, whenever it was, gave val" (never killed by writes)
        facts.discard(("H", f[1], not val))
        facts.add(("H", f[1], val))

    def _kill(self, facts, names):
        if not names:
            return
        dead = [f for f in facts if f[0] == "A" and (self.mention_cache[f[1]] & names)]
        for f in dead:
            facts.discard(f)

    def _sc_consumers(self):
        """keys of the leaves of compound conditions that close a full expression at a statement-level branch (`if (!(a || b))`: clang's CFG
        decomposes the inner `||` but leaves the whole tree as the branch condition): only these can use a short-circuit mark"""
        if getattr(self, "_scc", None) is None:
            self._scc = set()
            for b in self.fn.blocks.values():
                t = b.get("term") or {}
                if t.get("c") is not None and t.get("k") not in ("BinaryOperator", "ConditionalOperator"):
                    lv = E.leaves(t["c"])
                    if len(lv) >= 2:
                        self._scc.update(E.key(x) for x in lv)
        return self._scc

    def _leaf_eval(self, env):
        def ev(t):
            for m, b in self.assume:
                if m(t):
                    return b
            s = E.strip(t)
            if not isinstance(s, dict):
                return None
            if s.get("k") == "ref" and s.get("d") in self.tracked:
                return truth(env.get(s["d"]))
            if s.get("k") == "bin" and s.get("op") in ("==", "<"):
                l, r = E.strip(s.get("l")), E.strip(s.get("r"))
                lv = rv = None
                if isinstance(l, dict) and l.get("k") == "ref" and l.get("d") in self.tracked:
                    lv = env.get(l["d"])
                elif E.const(l) is not None:
                    lv = ("c", E.const(l))
                if isinstance(r, dict) and r.get("k") == "ref" and r.get("d") in self.tracked:
                    rv = env.get(r["d"])
                elif E.const(r) is not None:
                    rv = ("c", E.const(r))
                if isinstance(lv, tuple) and isinstance(rv, tuple):
                    return (lv[1] == rv[1]) if s["op"] == "==" else (lv[1] < rv[1])
                if s["op"] == "==" and ((lv == NZ and rv == ("c", 0)) or (rv == NZ and lv == ("c", 0))):
                    return False
            return None
        return ev

    def _event_effects(self, ev, env, facts):
        """apply one event to env/facts; returns False if control does not continue (noreturn)"""
        e = ev.get("e")
        kills = set()
        if e == "asg":
            kind, name = E.root_decl(ev.get("lhs"))
            lhs = E.strip(ev.get("lhs"))
            if name:
                kills.add(name)
            if isinstance(lhs, dict) and lhs.get("k") == "ref" and lhs.get("d") in self.tracked:
                d = lhs["d"]
                if ev.get("op") in ("=", "init"):
                    v = self.classify(d, ev.get("rhs"), env) if self.classify else UNKNOWN
                    if v is UNKNOWN:
                        v = default_classify(ev.get("rhs"), env, self.tracked)
                    env[d] = v
                elif ev.get("op") in ("++", "--", "+=", "-="):
                    cur = env.get(d)
                    step = 1 if ev.get("op") in ("++", "--") else E.const(ev.get("rhs"))
                    if isinstance(cur, tuple) and step is not None:
                        env[d] = ("c", cur[1] + (step if ev["op"] in ("++", "+=") else -step))
                    else:
                        env[d] = UNKNOWN
                elif ev.get("op") == "|=" and truth(default_classify(ev.get("rhs"), env, self.tracked)) is True:
                    env[d] = NZ
                else:
                    env[d] = UNKNOWN
        elif e == "decl":
            d = ev.get("d")
            kills.add(d)
            if d in self.tracked:
                v = self.classify(d, ev.get("init"), env) if self.classify else UNKNOWN
                if v is UNKNOWN:
                    v = default_classify(ev.get("init"), env, self.tracked)
                env[d] = v
        elif e == "call":
            x = E.strip(ev.get("x"))
            if isinstance(x, dict):
                f = x.get("f", "")
                args = x.get("a", [])
                for i, a in enumerate(args):
                    sa = E.strip(a)
                    if isinstance(sa, dict) and sa.get("k") == "un" and sa.get("op") == "&":
                        kind, name = E.root_decl(sa.get("e"))
                        if name:
                            kills.add(name)
                            if name in self.tracked:
                                env[name] = UNKNOWN
                    elif i in x.get("byref", []):
                        kind, name = E.root_decl(sa)
                        if name:
                            kills.add(name)
                            if name in self.tracked:
                                env[name] = UNKNOWN
                if "o" in x and not x.get("cm") and x.get("k") == "call":
                    so = E.strip(x.get("o"))
                    # non-const method call directly on a local/param *object* (not through a pointer):
                    # facts about that object are stale.  Calls through pointers are assumed not to
                    # change the fields tested by guards (stated in evidence assumptions).
                    if isinstance(so, dict) and so.get("k") == "ref" and so.get("dk") in ("local", "param", "static") \
                            and not so.get("t", "").rstrip().endswith("*"):
                        if f.split("::")[-1] not in ("operator->", "operator*", "operator bool", "operator!"):
                            kills.add(so["d"])
                if f.split("::")[-1] in ("operator=", "operator+=", "operator-=", "operator++", "operator--") and "o" in x:
                    kind, name = E.root_decl(x.get("o"))
                    if name in self.tracked:
                        env[name] = UNKNOWN
                if f in self.noret or x.get("noret"):
                    self._kill(facts, kills)
                    return False
        self._kill(facts, kills)
        if kills and self.track_atoms and not self.track_history:
            for name in list(self.track_atoms):
                if ("@" + name) in env and (self.track_mentions.get(name, set()) & kills):
                    del env["@" + name]
                    env.pop("@key:" + name, None)
        for name, pred in self.markers.items():
            if pred(ev):
                facts.add(("P", name))
                if name in self.track_markers:
                    env["#" + name] = 1
        if self.on_event:
            self.on_event(ev, env, facts)
        return True

    def _walk_block(self, b, env, facts, record=None, node=None):
        """process the events of block b; returns False if a noreturn call ended it"""
        for idx, ev in enumerate(b["ev"]):
            if record is not None:
                record.append(Site(self, b["id"], idx, ev, dict(env), frozenset(facts), node))
            if not self._event_effects(ev, env, facts):
                if record is not None:
                    record.append(Site(self, b["id"], idx, {"e": "exit", "kind": "noret", "l": ev.get("l")}, dict(env), frozenset(facts), node))
                return False
        return True

    def _succ(self, b, env, facts):
        """yield (to, env2, facts2, label, condkey) for feasible successor edges"""
        term = b.get("term")
        cond = term.get("c") if term else None
        succs = b["succ"]
        is_switch = term and term.get("k") == "SwitchStmt"
        if is_switch:
            allowed = None
            if self.switch_assume and cond is not None:
                ks = self.switch_assume(cond)
                if ks is not None:
                    allowed = set(ks) if isinstance(ks, (list, set, tuple)) else {ks}
            case_edges = []
            other = []
            for s in succs:
                tb = self.fn.blocks.get(s["to"])
                if s.get("lab") == "case" and tb is not None and "case" in tb:
                    case_edges.append((s, tb["case"]))
                else:
                    other.append(s)
            allvals = []
            for s, c in case_edges:
                lo = c.get("v")
                hi = c.get("hi", lo)
                allvals.append((lo, hi))
            if allowed is not None:
                hit = False
                covered = set()
                for s, c in case_edges:
                    lo, hi = c.get("v"), c.get("hi", c.get("v"))
                    ks_here = [k for k in allowed if lo is not None and lo <= k <= hi]
                    if ks_here:
                        hit = True
                        covered.update(ks_here)
                        f2 = set(facts)
                        if cond is not None and lo == hi:
                            self._add_fact(f2, E._mkbin("==", cond, {"k": "lit", "v": lo}), True)
                        self.edges_taken += 1
                        yield s["to"], dict(env), f2, "case %s" % E.key(c.get("x")), E.key(cond)
                    else:
                        self.edges_pruned += 1
                if covered != allowed:
                    for s in other:
                        self.edges_taken += 1
                        yield s["to"], dict(env), set(facts), s.get("lab", ""), E.key(cond)
                else:
                    self.edges_pruned += len(other)
                return
            for s, c in case_edges:
                f2 = set(facts)
                lo, hi = c.get("v"), c.get("hi", c.get("v"))
                if cond is not None and lo is not None and lo == hi:
                    self._add_fact(f2, E._mkbin("==", cond, {"k": "lit", "v": lo}), True)
                self.edges_taken += 1
                yield s["to"], dict(env), f2, "case %s" % E.key(c.get("x")), E.key(cond)
            for s in other:
                f2 = set(facts)
                if cond is not None and len(case_edges) <= 64:
                    for lo, hi in allvals:
                        if lo is not None and lo == hi:
                            self._add_fact(f2, E._mkbin("==", cond, {"k": "lit", "v": lo}), False)
                self.edges_taken += 1
                yield s["to"], dict(env), f2, s.get("lab", "default"), E.key(cond)
            return
        for s in succs:
            lab = s.get("lab")
            if lab in ("T", "F") and cond is not None:
                val = (lab == "T")
                base_eval = self._leaf_eval(env)

                def known(t, env=env, base_eval=base_eval):
                    r = base_eval(t)
                    return env.get("@sc:" + E.key(t)) if r is None else r
                r = E.eval3(cond, known)
                if r is not None and r != val:
                    self.edges_pruned += 1
                    continue
                imp = E.implied(cond, val, known)
                # an edge whose implied leaf contradicts a fact that holds on every path to here is infeasible
                contradicted = False
                for t, v in imp:
                    # only for atoms over locals/params/constants: their value cannot change behind our back
                    # (facts about calls or fields may be invalidated by callees, which we do not track)
                    if ("A", E.key(t), not v) in facts and all(
                            n.get("k") in ("lit", "sizeof", "bin", "un", "cast", "icast", "null") or
                            (n.get("k") == "ref" and n.get("dk") in ("local", "param", "enum")) or
                            (self.prune_fields and n.get("k") in ("mem", "this"))
                            for n in E.walk(t)):
                        contradicted = True
                        break
                if not contradicted and self.prune_fields and self.track_atoms and not self.track_history:
                    # path-sensitive variant: the same atom (same key, over locals/fields only) was last evaluated to the opposite value on
                    # *this* path and nothing it mentions was written since (a write would have dropped the tracked value)
                    for t, v in imp:
                        k = E.key(t)
                        for name in self.track_atoms:
                            if env.get("@" + name) == (not v) and env.get("@key:" + name) == k and all(
                                    n.get("k") in ("lit", "sizeof", "bin", "un", "cast", "icast", "null", "mem", "this") or
                                    (n.get("k") == "ref" and n.get("dk") in ("local", "param", "enum")) for n in E.walk(t)):
                                contradicted = True
                if contradicted:
                    self.edges_pruned += 1
                    continue
                # "@sc:<key>": value a sub-condition took in the short-circuit evaluation of the full expression being evaluated right now (set on the
                # edges of `&&`/`||`/`?:` terminators, consumed and dropped at the statement-level branch that closes the expression)
                short_circuit = (b.get("term") or {}).get("k") in ("BinaryOperator", "ConditionalOperator")
                env2 = dict(env) if short_circuit else {k: v for k, v in env.items() if not k.startswith("@sc:")}
                if short_circuit:
                    for t, v in imp:
                        if E.key(t) in self._sc_consumers():
                            env2["@sc:" + E.key(t)] = v
                f2 = set(facts)
                for t, v in imp:
                    st = E.strip(t)
                    if isinstance(st, dict) and st.get("k") == "ref" and st.get("d") in self.tracked:
                        cur = env2.get(st["d"])
                        if v and truth(cur) is None:
                            env2[st["d"]] = NZ
                        elif not v:
                            env2[st["d"]] = ("c", 0)
                    elif isinstance(st, dict) and st.get("k") == "bin" and st.get("op") == "==" and v:
                        l = E.strip(st.get("l"))
                        if isinstance(l, dict) and l.get("k") == "ref" and l.get("d") in self.tracked and E.const(st.get("r")) is not None:
                            env2[l["d"]] = ("c", E.const(st.get("r")))
                    self._add_fact(f2, t, v)
                    for name, m in self.track_atoms.items():
                        if m(t):
                            env2["@" + name] = v
                            env2["@key:" + name] = E.key(t)
                            self.track_mentions.setdefault(name, set()).update(E.mentions(t))
                if self.on_edge:
                    if self.on_edge(b, lab, imp, env2, f2) is False:
                        self.edges_pruned += 1
                        continue
                self.edges_taken += 1
                yield s["to"], env2, f2, lab, E.key(cond)
            else:
                self.edges_taken += 1
                yield s["to"], dict(env), set(facts), lab or "", None

    # ---------------------------------------------------------------- fixpoint
    def _run(self):
        self.IN[self.start] = frozenset()
        work = deque([self.start])
        inq = {self.start}
        while work:
            node = work.popleft()
            inq.discard(node)
            bid, ek = node
            b = self.fn.blocks.get(bid)
            if b is None:
                continue
            env = dict(ek)
            facts = set(self.IN[node])
            if not self._walk_block(b, env, facts):
                continue
            if bid == self.fn.exit:
                continue
            for to, env2, f2, lab, ck in self._succ(b, env, facts):
                tgt = (to, self._ek(env2))
                f2 = frozenset(f2)
                old = self.IN.get(tgt)
                self.pred.setdefault(tgt, set()).add((node, lab, ck))
                if old is None:
                    new = f2
                else:
                    new = old & f2
                    if new == old:
                        continue
                self.IN[tgt] = new
                if len(self.IN) > self.max_nodes:
                    raise RuntimeError("product graph too large in %s" % self.fn.name)
                if tgt not in inq:
                    work.append(tgt)
                    inq.add(tgt)

    def _collect(self):
        self.sites = []
        self.exit_sites = []
        for node, facts in self.IN.items():
            bid, ek = node
            b = self.fn.blocks.get(bid)
            if b is None or bid == self.fn.exit:
                continue
            env = dict(ek)
            fs = set(facts)
            rec = []
            cont = self._walk_block(b, env, fs, record=rec, node=node)
            self.sites.extend(rec)
            if cont and any(s["to"] == self.fn.exit for s in b["succ"]):
                # facts/env on the edge(s) into the exit block (the branch just taken counts)
                into = [(e2, f2) for (to, e2, f2, lab, ck) in self._succ(b, dict(env), set(fs)) if to == self.fn.exit]
                if not into:
                    continue
                fs = set.intersection(*[set(f2) for (_, f2) in into]) if len(into) > 1 else set(into[0][1])
                env = into[0][0] if len(into) == 1 else env
                last = b["ev"][-1] if b["ev"] else None
                kind = "fall"
                x = None
                if b.get("throw") or (last and last.get("e") == "throw"):
                    kind = "throw"
                elif b.get("noret"):
                    kind = "noret"
                elif last and last.get("e") == "ret":
                    kind = "ret"
                    x = last.get("x")
                ev = {"e": "exit", "kind": kind, "x": x, "l": (last or {}).get("l", self.fn.d.get("el", self.fn.line))}
                self.sites.append(Site(self, bid, len(b["ev"]), ev, dict(env), frozenset(fs), node))

    # ---------------------------------------------------------------- queries
    def find(self, pred):
        """sites whose event satisfies pred(ev)"""
        return [s for s in self.sites if pred(s.ev)]

    def reachable_blocks(self):
        return {n[0] for n in self.IN}

    def witness(self, site, limit=60):
        """one path (list of strings) through the product graph from the start to the site's node"""
        target = site.node
        parent = {self.start: None}
        dq = deque([self.start])
        # forward BFS using pred map inverted
        succ = {}
        for tgt, plist in self.pred.items():
            for (p, lab, ck) in plist:
                succ.setdefault(p, []).append((tgt, lab, ck))
        while dq:
            n = dq.popleft()
            if n == target:
                break
            for (t, lab, ck) in succ.get(n, []):
                if t not in parent:
                    parent[t] = (n, lab, ck)
                    dq.append(t)
        if target not in parent:
            return ["<no path>"]
        path = []
        n = target
        while parent[n] is not None:
            p, lab, ck = parent[n]
            if ck:
                path.append("B%d -[%s: %s]-> B%d" % (p[0], lab, ck[:90], n[0]))
            n = p
        path.reverse()
        if len(path) > limit:
            path = path[:limit // 2] + ["..."] + path[-limit // 2:]
        return path


# ------------------------------------------------------------------ event predicates

def ev_call(name, arg=None, obj=None, nargs=None):
    """event is a call of `name` (optionally: arg index -> matcher dict, object matcher)"""
    names = {name} if isinstance(name, str) else set(name)

    def p(ev):
        if ev.get("e") != "call":
            return False
        x = E.strip(ev.get("x"))
        if not isinstance(x, dict) or x.get("f") not in names:
            return False
        if nargs is not None and len(x.get("a", [])) != nargs:
            return False
        if arg:
            for i, m in arg.items():
                a = x.get("a", [])
                if i >= len(a) or not m(a[i]):
                    return False
        if obj is not None:
            if "o" not in x or not obj(x["o"]):
                return False
        return True
    return p


def ev_call_short(shortname):
    """call of any function whose last name component is `shortname` (for dependent calls)"""
    def p(ev):
        if ev.get("e") != "call":
            return False
        x = E.strip(ev.get("x"))
        return isinstance(x, dict) and x.get("f", "").split("::")[-1] == shortname
    return p


def ev_assign(target, value=None, ops=("=", "init")):
    """event assigns to local/param (bare name) or member (qualified name) `target`"""
    def p(ev):
        if ev.get("e") != "asg" or (ops and ev.get("op") not in ops):
            return False
        kind, name = E.root_decl(ev.get("lhs"))
        l = E.strip(ev.get("lhs"))
        if not isinstance(l, dict):
            return False
        nm = l.get("d") if l.get("k") == "ref" else (l.get("m") if l.get("k") == "mem" else None)
        if nm != target:
            return False
        if value is not None and not value(ev.get("rhs")):
            return False
        return True
    return p


def ev_decl(name):
    return lambda ev: ev.get("e") == "decl" and ev.get("d") == name


def ev_return(value=None):
    def p(ev):
        if ev.get("e") != "ret":
            return False
        if value is not None and not value(ev.get("x")):
            return False
        return True
    return p


def ev_exit(kinds=("ret", "fall")):
    return lambda ev: ev.get("e") == "exit" and ev.get("kind") in kinds


def ev_throw():
    return lambda ev: ev.get("e") == "throw"


def ev_any(*preds):
    return lambda ev: any(p(ev) for p in preds)
