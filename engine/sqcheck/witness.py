"""WITNESS (DESIGN.md 4.10): compile-time witness units checked with `clang++ -fsyntax-only` against /repo's current headers."""
import os
import subprocess

from . import units


def compile_witness(src, anchor_unit, defines=()):
    """returns (ok, first error lines).  Flags are those of `anchor_unit`'s directory."""
    cwd, flags = units.unit_flags(units.src(anchor_unit))
    cmd = ["clang++"] + list(flags) + ["-fsyntax-only", "-ferror-limit=0", "-Wno-everything"] + ["-D" + d for d in defines] + [src]
    p = subprocess.run(cmd, cwd=cwd, stdout=subprocess.PIPE, stderr=subprocess.STDOUT, universal_newlines=True)
    errs = [ln for ln in p.stdout.splitlines() if " error: " in ln or "fatal error" in ln]
    return p.returncode == 0, errs
