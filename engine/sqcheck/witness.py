"""WITNESS (DESIGN.md 4.10): compile-time witness units checked with `clang++ -fsyntax-only` against /repo's current headers."""
import os
import subprocess

from . import units


def compile_witness(src, anchor_unit, defines=()):
    """returns (ok, first error lines).  Flags are those of `anchor_unit`'s directory."""
    cwd, flags = units.unit_flags(units.src(anchor_unit))
    extra = []
    vfs = None
    if units.OVERLAY:
        # thorough tier / self-validation: the witness must see the same overlaid sources as the fact extractor
        import json
        import tempfile
        roots = []
        for path, repl in sorted(units.OVERLAY.items()):
            roots.append({"name": os.path.dirname(path), "type": "directory",
                          "contents": [{"name": os.path.basename(path), "type": "file", "external-contents": repl}]})
        fd, vfs = tempfile.mkstemp(prefix="sqcheck-vfs-", suffix=".yaml")
        with os.fdopen(fd, "w") as f:
            json.dump({"version": 0, "case-sensitive": "true", "roots": roots}, f)
        extra = ["-ivfsoverlay", vfs]
    cmd = ["clang++"] + list(flags) + extra + ["-fsyntax-only", "-ferror-limit=0", "-Wno-everything"] + ["-D" + d for d in defines] + [src]
    try:
        p = subprocess.run(cmd, cwd=cwd, stdout=subprocess.PIPE, stderr=subprocess.STDOUT, universal_newlines=True)
    finally:
        if vfs:
            os.unlink(vfs)
    errs = [ln for ln in p.stdout.splitlines() if " error: " in ln or "fatal error" in ln]
    return p.returncode == 0, errs
