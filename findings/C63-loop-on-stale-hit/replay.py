#!/usr/bin/env python3
"""Replay of the C63 known finding: a request whose Via names this squid is FORWARDED when it hits a stale cached entry
(clientReplyContext::processExpired has no loopDetected check), although the same looping request is refused (403) on a miss.
usage: replay.py <tree-root>   exit 0 = loop refused in both cases, 1 = forwarded on the stale hit (finding reproduced)"""
import sys, time, harness

tree = sys.argv[1] if len(sys.argv) > 1 else "/repo"
origin = harness.Origin()
# cacheable reply that becomes stale after 1 second
def serve(c, self=origin):
    c.settimeout(5)
    buf = b""
    try:
        while b"\r\n\r\n" not in buf:
            d = c.recv(65536)
            if not d:
                break
            buf += d
        head = buf.split(b"\r\n\r\n", 1)[0].decode("latin-1")
        lines = head.split("\r\n")
        hdrs = {}
        for l in lines[1:]:
            n, _, v = l.partition(":")
            hdrs.setdefault(n.strip().lower(), []).append(v.strip())
        with self.lock:
            self.arrivals.append((lines[0], hdrs, head))
        body = b"cacheable-body\n"
        c.sendall(b"HTTP/1.1 200 OK\r\nContent-Type: text/plain\r\nCache-Control: max-age=1\r\n"
                  b"Last-Modified: Mon, 01 Jan 2024 00:00:00 GMT\r\nConnection: close\r\nContent-Length: %d\r\n\r\n%s" % (len(body), body))
    except OSError:
        pass
    finally:
        c.close()
origin.serve = serve
origin.start()
sq = harness.Squid(tree, extra_conf="cache allow all\ncache_mem 8 MB\n")
# the harness config says "cache deny all" first; drop it so that objects are cached in memory
conf = open(sq.conf).read().replace("cache deny all\n", "").replace("cache_mem 0 MB\n", "")
open(sq.conf, "w").write(conf)
sq.start()
rc = 2
try:
    url = "http://127.0.0.1:%d/obj" % origin.port
    plain = ("GET %s HTTP/1.1\r\nHost: 127.0.0.1:%d\r\nConnection: close\r\n\r\n" % (url, origin.port)).encode()
    loop = ("GET %s HTTP/1.1\r\nHost: 127.0.0.1:%d\r\nVia: 1.1 %s (squid/8.0.0-VCS)\r\nConnection: close\r\n\r\n" % (url, origin.port, harness.VISIBLE_HOSTNAME)).encode()
    miss_url = url + "-other"
    loop_miss = loop.replace(url.encode(), miss_url.encode())
    st, _ = sq.request(loop_miss)
    miss_arrivals = len(origin.take())
    print("looping request, cache MISS        : status %s, origin arrivals %d" % (st, miss_arrivals))
    st, _ = sq.request(plain)
    print("plain request (fills the cache)     : status %s, origin arrivals %d" % (st, len(origin.take())))
    time.sleep(2.5)     # entry is stale now
    st, txt = sq.request(loop)
    stale_arrivals = origin.take()
    print("looping request, STALE cache hit    : status %s, origin arrivals %d %s" % (st, len(stale_arrivals), [a[0] for a in stale_arrivals]))
    if miss_arrivals == 0 and len(stale_arrivals) > 0:
        print("REPRODUCED: the loop is refused on a miss but forwarded (revalidation) on a stale hit; forwarded Via:", stale_arrivals[0][1].get("via"))
        rc = 1
    elif miss_arrivals == 0 and len(stale_arrivals) == 0:
        rc = 0
finally:
    sq.stop()
sys.exit(rc)
