#include "squid.h"
#include "anyp/Uri.h"
#include "http/RequestMethod.h"
#include "sbuf/SBuf.h"
#include "mem/forward.h"
#include "anyp/UriScheme.h"
#include <cstdio>
int main() {
    Mem::Init();
    AnyP::UriScheme::Init();
    const char *in[] = {"http://example.com:8080/x", "http://example.com:80abc/x", "http://example.com:4294967376/x", "http://example.com:99999/x"};
    int bad = 0;
    for (int i = 0; i < 4; ++i) {
        AnyP::Uri u;
        const bool ok = u.parse(HttpRequestMethod(Http::METHOD_GET), SBuf(in[i]));
        printf("%s -> accepted=%d port=%d\n", in[i], ok, ok ? int(u.port().value_or(0)) : -1);
        if (ok && i > 0) ++bad;
    }
    return bad ? 1 : 0;
}
