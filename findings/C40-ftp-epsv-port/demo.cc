#include "squid.h"
#include "ftp/Parsing.h"
#include "ip/Address.h"
#include "SquidConfig.h"
#include <cstdio>
int main() {
    Config.Ftp.sanitycheck = 0;
    const char *in[] = {"|1|127.0.0.1|2121|", "|1|127.0.0.1|70000|", "|1|127.0.0.1|0|", "|1|127.0.0.1|65536|", "|1|127.0.0.1|4294967317|"};
    int bad = 0;
    for (const char *s : in) {
        Ip::Address a;
        const bool ok = Ftp::ParseProtoIpPort(s, a);
        printf("%s -> ok=%d port=%u\n", s, ok, ok ? a.port() : 0);
        if (ok && s != in[0]) ++bad;
    }
    return bad ? 1 : 0;
}
