#!/usr/bin/env python3
"""concurrent url_rewrite helper used by replay.py: waits until N requests are pending, then answers channel TARGET with its reply SPLIT inside the
channel-ID digits (first byte alone, rest 0.7 s later), then answers everybody else normally."""
import os, sys, time
N = int(os.environ.get("C47_N", "11"))
TARGET = os.environ.get("C47_TARGET", "10")
ORIGIN = os.environ["C47_ORIGIN"]
out = os.fdopen(1, "wb", buffering=0)
pending = {}
done = False
for raw in iter(sys.stdin.buffer.readline, b""):
    parts = raw.decode("latin-1").split()
    if not parts:
        continue
    ch = parts[0]
    pending[ch] = parts[1] if len(parts) > 1 else ""
    if done:
        out.write(("%s OK rewrite-url=\"%s/for-%s\"\n" % (ch, ORIGIN, ch)).encode())
        continue
    if len(pending) >= N and TARGET in pending:
        reply = "%s OK rewrite-url=\"%s/for-%s\"\n" % (TARGET, ORIGIN, TARGET)
        out.write(reply[:1].encode())          # only the first digit of the channel ID
        time.sleep(0.7)
        out.write(reply[1:].encode())
        time.sleep(0.3)
        for c in list(pending):
            if c != TARGET:
                out.write(("%s OK rewrite-url=\"%s/for-%s\"\n" % (c, ORIGIN, c)).encode())
        done = True
