#!/usr/bin/env python3
"""Replay of the C47 finding: a concurrent helper's reply whose channel ID is split across two reads ("1" | "0 OK ...") is bound to the
wrong request (channel 1) and the real asker (channel 10) never gets its answer.
usage: replay.py <tree-root>; exit 0 = every request got its own helper answer, 1 = misdelivery reproduced"""
import os, sys, threading, time, harness

tree = sys.argv[1] if len(sys.argv) > 1 else "/repo"
here = os.path.dirname(os.path.abspath(__file__))
origin = harness.Origin()
def serve(c, self=origin):
    c.settimeout(5)
    buf = b""
    try:
        while b"\r\n\r\n" not in buf:
            d = c.recv(65536)
            if not d:
                break
            buf += d
        line = buf.split(b"\r\n", 1)[0].decode("latin-1")
        path = line.split(" ")[1]
        body = path.encode()
        c.sendall(b"HTTP/1.1 200 OK\r\nContent-Type: text/plain\r\nCache-Control: no-store\r\nConnection: close\r\nContent-Length: %d\r\n\r\n%s" % (len(body), body))
    except OSError:
        pass
    finally:
        c.close()
origin.serve = serve
origin.start()
N = 11
os.environ["C47_ORIGIN"] = "http://127.0.0.1:%d" % origin.port
os.environ["C47_N"] = str(N)
sq = harness.Squid(tree, extra_conf="url_rewrite_program %s/helper.py\nurl_rewrite_children 1 startup=1 idle=1 concurrency=40\nurl_rewrite_timeout 6 seconds on_timeout=fail\n" % here)
sq.start()
results = {}
def one(i):
    raw = ("GET http://127.0.0.1:%d/orig-%d HTTP/1.1\r\nHost: 127.0.0.1:%d\r\nConnection: close\r\n\r\n" % (origin.port, i, origin.port)).encode()
    try:
        st, txt = sq.request(raw, timeout=9)
        results[i] = (st, txt.split("\r\n\r\n", 1)[1] if "\r\n\r\n" in txt else "")
    except Exception as e:
        results[i] = (None, repr(e))
rc = 2
try:
    ths = []
    for i in range(N):
        t = threading.Thread(target=one, args=(i,)); t.start(); ths.append(t); time.sleep(0.05)
    for t in ths:
        t.join(15)
    # channel IDs are assigned in submission order; every request must come back rewritten to /for-<some channel>, each channel used once
    bodies = sorted(b for (_, b) in results.values())
    good = [b for b in bodies if b.startswith("/for-")]
    print("answers:", {i: (results[i][0], results[i][1][:24].replace("\n", " ")) for i in sorted(results)})
    if len(good) == N and len(set(good)) == N:
        print("every request received its own helper answer")
        rc = 0
    else:
        print("MISDELIVERY: %d of %d requests got a rewrite answer; missing/duplicated: %s" % (len(good), N, [(i, results[i][0], results[i][1][:24].replace("\n", " ")) for i in sorted(results) if not results[i][1].startswith("/for-")]))
        rc = 1
finally:
    sq.stop()
sys.exit(rc)
