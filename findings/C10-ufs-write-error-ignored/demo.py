#!/usr/bin/env python3
"""
NOT a seeded change: this probe FAILS on the UNMODIFIED tree.

A ufs swapout whose final disk write fails (EFBIG via RLIMIT_FSIZE, SIGXFSZ ignored) still ends up
as SWAPOUT_DONE, and later TCP_HITs serve the truncated on-disk file (200 + full Content-Length +
short body). Cause in the unmodified sources: BlockingFile::writeDone() reacts to a write error with
doClose() (fd=-1, closed=true) but never sets error_, so BlockingFile::error() stays false;
Fs::Ufs::UFSStoreState::writeCompleted(int, size_t len, ...) ignores its errflag argument and only
looks at theFile->error(); closeCompleted() therefore reports DISK_OK to storeSwapOutFileClosed().
(DiskThreadsDiskFile::writeDone() does not record the error either.)
"""
import os, resource, signal, struct, sys, time
sys.path.insert(0, os.path.dirname(os.path.abspath(__file__)))
from common import Origin, Squid, fetch, body

tree = sys.argv[1]
STORE_TYPE = sys.argv[2] if len(sys.argv) > 2 else "ufs"     # ufs (BlockingFile) or aufs (DiskThreadsDiskFile)
PAGE, FULL_PAGES = 4096, 15
CONF = "cache_mem 0 MB\nmaximum_object_size 1 MB\ncache_dir %s @DIR@/cache 100 4 4" % STORE_TYPE + "\n"
LIMIT = None


def limit_file_size():
    signal.signal(signal.SIGXFSZ, signal.SIG_IGN)
    resource.setrlimit(resource.RLIMIT_FSIZE, (LIMIT, LIMIT))


def url(n, size):
    return "/o/obj%02d/size=%07d" % (n, size)  # fixed length => fixed swap metadata size


origin = Origin()
sq = Squid(tree, CONF)
rc = 2
try:
    sq.create_dirs()
    sq.start()  # phase A, no limit: learn swap_hdr_sz
    st, hd, b = fetch(sq.port, origin.port, url(0, 1000))
    time.sleep(0.5)
    sq.stop()
    files = sorted(os.path.join(r, f) for r, d, fs in os.walk(os.path.join(sq.dir, 'cache'))
                   for f in fs if len(f) == 8 and not f.startswith('swap'))
    swap_hdr_sz = struct.unpack('=i', open(files[0], 'rb').read(5)[1:5])[0]
    LIMIT = swap_hdr_sz + FULL_PAGES * PAGE
    print("swap metadata is %d bytes; RLIMIT_FSIZE=%d: full pages fit, the final partial page write fails" % (swap_hdr_sz, LIMIT))
    sq.preexec = limit_file_size
    sq.start()
    violated = False
    for n, size in enumerate((FULL_PAGES * PAGE + 300, FULL_PAGES * PAGE + 3000), 1):
        path = url(n, size)
        expected = body(path, 1, size)
        for attempt in range(3):
            st, hd, b = fetch(sq.port, origin.port, path)
            ok = st == 200 and b == expected
            violated |= not ok
            print("size=%d try=%d status=%s %-28s content-length=%s received=%d %s" % (
                size, attempt, st, hd.get('cache-status', '').split(';', 1)[-1], hd.get('content-length'), len(b), 'ok' if ok else 'BAD'))
            time.sleep(0.3)
    nerr = open(os.path.join(sq.dir, 'cache.log'), errors='replace').read().count('File too large')
    print("cache.log reports %d failed disk writes (EFBIG)" % nerr)
    rc = 1 if violated else (3 if nerr == 0 else 0)
    print("FAIL: truncated hit served" if rc == 1 else "PASS" if rc == 0 else "INCONCLUSIVE")
finally:
    sq.cleanup()
sys.exit(rc)
