#!/usr/bin/env python3
"""Shared helpers for the C10 demos: a loopback origin, a proxy client and a squid launcher."""
import hashlib, os, pwd, shutil, signal, socket, subprocess, sys, tempfile, threading, time
from http.server import BaseHTTPRequestHandler, ThreadingHTTPServer


def body(name, ver, size):
    """deterministic body: every 64-byte block encodes (name, version, block index)"""
    out = bytearray()
    i = 0
    while len(out) < size:
        out += hashlib.sha256(("%s|%d|%d" % (name, ver, i)).encode()).hexdigest().encode()
        i += 1
    return bytes(out[:size])


def free_port():
    s = socket.socket()
    s.bind(('127.0.0.1', 0))
    p = s.getsockname()[1]
    s.close()
    return p


class Origin:
    """GET /o/<name>/size=N[/k=v...] -> 200, Content-Length: N, cacheable for an hour"""
    def __init__(self):
        self.version = 1
        self.served = []  # (path, version)
        origin = self

        class H(BaseHTTPRequestHandler):
            protocol_version = 'HTTP/1.1'

            def log_message(self, *a):
                pass

            def do_GET(self):
                q = dict(seg.split('=', 1) for seg in self.path.split('/') if '=' in seg)
                size = int(q.get('size', '100'))
                ver = origin.version
                b = body(self.path, ver, size)
                origin.served.append((self.path, ver))
                self.send_response(200)
                self.send_header('Content-Type', 'application/octet-stream')
                self.send_header('Content-Length', str(len(b)))
                self.send_header('Cache-Control', 'public, max-age=3600')
                self.send_header('X-Ver', str(ver))
                self.end_headers()
                self.wfile.write(b)

        self.port = free_port()
        self.httpd = ThreadingHTTPServer(('127.0.0.1', self.port), H)
        self.httpd.daemon_threads = True
        self.httpd.handle_error = lambda *a: None  # proxy-side aborts are expected
        threading.Thread(target=self.httpd.serve_forever, daemon=True).start()


def fetch(pport, oport, path, timeout=30):
    """full GET through the proxy; returns (status, headers, body-bytes-until-close)"""
    s = socket.create_connection(('127.0.0.1', pport), timeout=timeout)
    s.sendall(("GET http://127.0.0.1:%d%s HTTP/1.1\r\nHost: 127.0.0.1:%d\r\nConnection: close\r\n\r\n"
               % (oport, path, oport)).encode())
    data = b''
    try:
        while True:
            c = s.recv(65536)
            if not c:
                break
            data += c
    except socket.timeout:
        pass
    s.close()
    head, _, b = data.partition(b"\r\n\r\n")
    lines = head.decode('latin1').split("\r\n")
    status = int(lines[0].split()[1]) if lines and len(lines[0].split()) > 1 else 0
    hd = {}
    for l in lines[1:]:
        k, _, v = l.partition(':')
        hd[k.strip().lower()] = v.strip()
    return status, hd, b


class Squid:
    def __init__(self, tree, extra_conf, workdir=None, preexec=None):
        self.tree = os.path.abspath(tree)
        self.dir = workdir or tempfile.mkdtemp(prefix='c10demo-')
        os.makedirs(os.path.join(self.dir, 'cache'), exist_ok=True)
        self.port = free_port()
        self.preexec = preexec
        self.conf = os.path.join(self.dir, 'squid.conf')
        d = self.dir
        user = ''
        if os.geteuid() == 0:
            user = 'cache_effective_user nobody\n'
        with open(self.conf, 'w') as f:
            f.write(("http_port 127.0.0.1:%d\nvisible_hostname c10demo\n%s"
                     "pid_filename %s/squid.pid\ncache_log %s/cache.log\naccess_log stdio:%s/access.log\n"
                     "coredump_dir %s\nmime_table %s/src/mime.conf.default\nicon_directory %s/icons\n"
                     "error_directory %s/errors/templates\nunlinkd_program %s/src/unlinkd\n"
                     "http_access allow all\nshutdown_lifetime 0 seconds\ndns_nameservers 127.0.0.1\n")
                    % (self.port, user, d, d, d, d, self.tree, self.tree, self.tree, self.tree))
            f.write(extra_conf.replace('@DIR@', d))
        if os.geteuid() == 0:
            nobody = pwd.getpwnam('nobody')
            for root, dirs, files in os.walk(d):
                os.chown(root, nobody.pw_uid, nobody.pw_gid)
                for n in files:
                    os.chown(os.path.join(root, n), nobody.pw_uid, nobody.pw_gid)
            os.chmod(d, 0o755)
        self.proc = None

    def binary(self):
        return os.path.join(self.tree, 'src', 'squid')

    def create_dirs(self):
        subprocess.run([self.binary(), '-N', '-z', '-f', self.conf], check=True,
                       stdout=subprocess.DEVNULL, stderr=subprocess.DEVNULL)

    def start(self):
        self.proc = subprocess.Popen([self.binary(), '-N', '-f', self.conf],
                                     stdout=subprocess.DEVNULL, stderr=subprocess.DEVNULL,
                                     preexec_fn=self.preexec)
        for i in range(600):
            try:
                socket.create_connection(('127.0.0.1', self.port), timeout=1).close()
                break
            except OSError:
                if self.proc.poll() is not None:
                    raise RuntimeError('squid exited early, see %s/cache.log' % self.dir)
                time.sleep(0.1)
        else:
            raise RuntimeError('squid did not start listening')
        self.rebuilds = self.wait_rebuilt(getattr(self, 'rebuilds', 0))

    def wait_rebuilt(self, already=0, timeout=120):
        """wait until cache.log reports one more finished cache_dir index rebuild"""
        log = os.path.join(self.dir, 'cache.log')
        for i in range(timeout * 10):
            try:
                n = open(log, errors='replace').read().count('Finished rebuilding storage from disk')
            except OSError:
                n = 0
            if n > already:
                return n
            time.sleep(0.1)
        raise RuntimeError('cache_dir index rebuild did not finish')

    def stop(self):
        if self.proc and self.proc.poll() is None:
            self.proc.send_signal(signal.SIGTERM)
            try:
                self.proc.wait(timeout=30)
            except subprocess.TimeoutExpired:
                self.proc.kill()
                self.proc.wait()
        self.proc = None

    def cleanup(self):
        self.stop()
        if not os.environ.get('C10_KEEP'):
            shutil.rmtree(self.dir, ignore_errors=True)
