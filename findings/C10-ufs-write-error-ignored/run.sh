#!/bin/sh
# usage: run.sh [TREE_ROOT]   (default: the tree containing this SEED directory)
# exit 0 = property held, non-zero = violated (1) or demo could not run (2,3)
HERE=$(cd "$(dirname "$0")" && pwd)
TREE=${1:-$(cd "$HERE/../.." && pwd)}
test -x "$TREE/src/squid" || { echo "no built squid at $TREE/src/squid" >&2; exit 2; }
exec python3 "$HERE/demo.py" "$TREE" ${2:-ufs}
