#!/usr/bin/env python3
"""C05 replay: a chunked POST that is not the first request of a pipeline.

ConnStateData::finishDechunkingRequest() stamps the dechunked Content-Length on pipeline.front(); when an earlier request is still in the
pipeline that is the *earlier* request (here a GET), not the POST whose body was dechunked.  The origin then sees a GET that announces a body.
usage: replay.py [tree-root]   exit 0 = property held, 1 = violated, 2 = harness problem"""
import os, shutil, signal, socket, subprocess, sys, tempfile, threading, time

tree = os.path.abspath(sys.argv[1] if len(sys.argv) > 1 else "/repo")
seen = []          # (method, path, headers dict) as received by the origin
lock = threading.Lock()


def free_port():
    s = socket.socket(); s.bind(("127.0.0.1", 0)); p = s.getsockname()[1]; s.close(); return p


def serve(c):
    buf = b""
    c.settimeout(4)
    try:
        while True:
            while b"\r\n\r\n" not in buf:
                d = c.recv(65536)
                if not d:
                    return
                buf += d
            head, buf = buf.split(b"\r\n\r\n", 1)
            lines = head.decode("latin1").split("\r\n")
            method, target, _ = lines[0].split(" ", 2)
            hdrs = {l.partition(":")[0].strip().lower(): l.partition(":")[2].strip() for l in lines[1:]}
            with lock:
                seen.append((method, target, hdrs))
            body = b""
            if method == "GET":
                time.sleep(0.5)     # keep the GET at the front of squid's pipeline while the POST is handled
                n = int(hdrs.get("content-length", "0"))     # a well-behaved origin reads the body a request announces
                while len(buf) < n:
                    d = c.recv(65536)
                    if not d:
                        return
                    buf += d
                buf = buf[n:]
            else:
                if hdrs.get("transfer-encoding", "").lower() == "chunked":
                    while b"0\r\n\r\n" not in buf:
                        buf += c.recv(65536)
                    buf = b""
                else:
                    n = int(hdrs.get("content-length", "0"))
                    while len(buf) < n:
                        buf += c.recv(65536)
                    buf = buf[n:]
            msg = ("answer to %s %s" % (method, target)).encode()
            c.sendall(b"HTTP/1.1 200 OK\r\nCache-Control: no-store\r\nContent-Length: %d\r\n\r\n%s" % (len(msg), msg))
    except Exception:
        pass
    finally:
        c.close()


def origin():
    s = socket.socket(); s.setsockopt(socket.SOL_SOCKET, socket.SO_REUSEADDR, 1); s.bind(("127.0.0.1", 0)); s.listen(16)
    def loop():
        while True:
            try:
                c, _ = s.accept()
            except OSError:
                return
            threading.Thread(target=serve, args=(c,), daemon=True).start()
    threading.Thread(target=loop, daemon=True).start()
    return s.getsockname()[1]


def main():
    oport = origin()
    d = tempfile.mkdtemp(prefix="c05replay."); os.chmod(d, 0o777)
    port = free_port()
    open(os.path.join(d, "squid.conf"), "w").write("""
http_port 127.0.0.1:%d
visible_hostname c05.test
pid_filename %s/squid.pid
cache_log %s/cache.log
access_log stdio:%s/access.log
coredump_dir %s
mime_table %s/src/mime.conf.default
icon_directory %s/icons
error_directory %s/errors/templates
unlinkd_program %s/src/unlinkd
http_access allow all
shutdown_lifetime 0 seconds
dns_nameservers 127.0.0.1
cache deny all
pipeline_prefetch 1
%s
""" % (port, d, d, d, d, tree, tree, tree, tree, "cache_effective_user nobody" if os.getuid() == 0 else ""))
    p = subprocess.Popen([os.path.join(tree, "src/squid"), "-N", "-f", os.path.join(d, "squid.conf")], stdout=subprocess.DEVNULL, stderr=subprocess.DEVNULL)
    try:
        for _ in range(300):
            try:
                socket.create_connection(("127.0.0.1", port), timeout=0.5).close(); break
            except OSError:
                if p.poll() is not None:
                    print("squid exited early, see", d); return 2
                time.sleep(0.1)
        else:
            print("squid did not start"); return 2
        c = socket.create_connection(("127.0.0.1", port))
        base = "http://127.0.0.1:%d" % oport
        # both requests (and the whole chunked body) arrive in one segment
        c.sendall(("GET %s/first HTTP/1.1\r\nHost: 127.0.0.1:%d\r\n\r\n"
                   "POST %s/second HTTP/1.1\r\nHost: 127.0.0.1:%d\r\nTransfer-Encoding: chunked\r\n\r\n5\r\nhello\r\n0\r\n\r\n" % (base, oport, base, oport)).encode())
        c.settimeout(6)
        got = b""
        try:
            while got.count(b"answer to") < 2:
                x = c.recv(65536)
                if not x:
                    break
                got += x
        except socket.timeout:
            pass
        time.sleep(0.3)
        bad = 0
        with lock:
            for method, target, hdrs in seen:
                print("origin saw: %s %s content-length=%r transfer-encoding=%r" % (method, target, hdrs.get("content-length"), hdrs.get("transfer-encoding")))
                if method == "GET" and ("content-length" in hdrs or "transfer-encoding" in hdrs):
                    print("VIOLATION: the GET was forwarded announcing a body (the dechunked length of the *next* request's body)"); bad = 1
                if method == "POST" and hdrs.get("content-length") not in ("5",) and hdrs.get("transfer-encoding", "").lower() != "chunked":
                    print("VIOLATION: the POST was forwarded without its body framing"); bad = 1
        n = got.count(b"answer to")
        print("client received %d response(s) for 2 requests" % n)
        if n != 2 or got.find(b"answer to GET") > got.find(b"answer to POST"):
            print("VIOLATION: not exactly one response per request in request order"); bad = 1
        print("property violated" if bad else "property held")
        return bad
    finally:
        if p.poll() is None:
            p.send_signal(signal.SIGTERM)
            try:
                p.wait(10)
            except subprocess.TimeoutExpired:
                p.kill()
        shutil.rmtree(d, ignore_errors=True)


sys.exit(main())
