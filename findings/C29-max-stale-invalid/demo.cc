#include "squid.h"
#include "HttpHdrCc.h"
#include "MemBuf.h"
#include "mem/forward.h"
#include "SquidString.h"
#include <cstdio>
int main() {
    Mem::Init();
    const char *in[] = {"max-stale", "max-stale=30", "max-stale=abc", "max-stale=-5", "max-age=abc", "max-age=10x", "max-age=4294967297"};
    int bad = 0;
    for (const char *s : in) {
        HttpHdrCc cc;
        String v(s);
        cc.parse(v);
        int ms = -2, ma = -2;
        const bool hasMs = cc.hasMaxStale(&ms);
        const bool hasMa = cc.hasMaxAge(&ma);
        MemBuf mb; mb.init();
        cc.packInto(&mb);
        printf("%-22s -> max-stale:%s(%d) max-age:%s(%d) repacked='%.*s'\n", s, hasMs ? "set" : "absent", ms, hasMa ? "set" : "absent", ma, (int)mb.contentSize(), mb.content());
        mb.clean();
    }
    return 0;
}
