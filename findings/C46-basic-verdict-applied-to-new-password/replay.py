#!/usr/bin/env python3
"""C46 replay: a Basic helper verdict is applied to whatever password the shared user record holds *now*.

Auth::Basic::UserRequest::HandleReply() marks the cached Auth::Basic::User Ok/Failed without checking that the record still holds the password
the lookup was submitted with.  Sequence (two helper children, the right password takes 1.5 s to verify, a wrong one 3 s):
   t=0.0  alice:right-pw      -> lookup A in flight (record: passwd=right-pw, Pending)
   t=0.5  alice:guess         -> updateCached(): passwd=guess, Unchecked -> lookup B in flight (Pending)
   t=0.8  alice:guess (again) -> queued behind the Pending record
   t=1.5  lookup A answers OK -> record (passwd=guess!) becomes Ok; the queued request is released as authenticated
   t=2.0  alice:guess (third) -> record says Ok for passwd=guess: authorised from the cache
   t=3.5  lookup B answers ERR
usage: replay.py [tree-root]; exit 0 = property held, 1 = violated, 2 = harness problem"""
import sys, threading, time
import c46lib

HELPER = r'''#!/usr/bin/env python3
import sys, time, urllib.parse
USERS = {"alice": "right-pw"}
log = open(sys.argv[1], "a", buffering=1)
for line in sys.stdin:
    parts = line.rstrip("\n").split(" ")
    user = urllib.parse.unquote(parts[0]) if parts else ""
    pw = urllib.parse.unquote(parts[1]) if len(parts) > 1 else ""
    ok = USERS.get(user) == pw
    time.sleep(1.5 if ok else 3.0)
    log.write("%s %s -> %s\n" % (user, pw, "OK" if ok else "ERR"))
    sys.stdout.write("OK\n" if ok else "ERR\n")
    sys.stdout.flush()
'''


def main():
    tree = sys.argv[1] if len(sys.argv) > 1 else "/repo"
    origin = c46lib.Origin()
    sq = c46lib.Squid(tree, HELPER)
    results = {}
    try:
        def run(tag, auth):
            results[tag] = c46lib.proxy_get(sq.port, origin.port, tag, auth)
        ts = []
        for delay, tag, pw in ((0.0, "alice-right", "right-pw"), (0.5, "alice-guess-1", "guess"), (0.8, "alice-guess-2", "guess"), (2.0, "alice-guess-3", "guess")):
            t = threading.Timer(delay, run, args=(tag, c46lib.basic("alice", pw)))
            t.start(); ts.append(t)
        for t in ts:
            t.join()
        time.sleep(5)
        arrived = origin.tags()
        helper = sq.helper_lines()
    finally:
        sq.stop(); origin.stop()
    print("client statuses :", results)
    print("origin arrivals :", arrived)
    print("helper saw      :", helper)
    if results.get("alice-right") != 200:
        print("HARNESS PROBLEM: the valid request was not served"); return 2
    bad = [t for t in ("alice-guess-1", "alice-guess-2", "alice-guess-3") if t in arrived or results.get(t) == 200]
    for t in bad:
        print("VIOLATION: %s (password the helper rejects) was authorised and forwarded" % t)
    print("property violated" if bad else "property held")
    return 1 if bad else 0


sys.exit(main())
