#!/usr/bin/env python3
"""
Small loopback harness for the C46 (proxy authentication) demonstrations.

It starts
  * an origin HTTP server (thread) that records every request that arrives,
  * the squid binary of the tree under test with a private configuration that
    requires Basic proxy authentication through a python helper,
and offers a tiny raw-socket proxy client.

Nothing here is squid-version specific; only python3 stdlib is used.
"""
import base64
import os
import shutil
import socket
import stat
import subprocess
import sys
import tempfile
import threading
import time
from http.server import BaseHTTPRequestHandler, ThreadingHTTPServer

PY = "/usr/bin/python3" if os.path.exists("/usr/bin/python3") else sys.executable


def free_port():
    s = socket.socket()
    s.bind(("127.0.0.1", 0))
    p = s.getsockname()[1]
    s.close()
    return p


class Origin:
    """records (tag, path) of every request that reaches the origin"""

    def __init__(self):
        self.arrivals = []
        self.lock = threading.Lock()
        outer = self

        class H(BaseHTTPRequestHandler):
            protocol_version = "HTTP/1.1"

            def do_GET(self):
                with outer.lock:
                    outer.arrivals.append((self.headers.get("X-Tag", "?"), self.path))
                body = b"origin-ok\n"
                self.send_response(200)
                self.send_header("Content-Length", str(len(body)))
                self.send_header("Cache-Control", "no-store")
                self.end_headers()
                self.wfile.write(body)

            def log_message(self, *a):
                pass

        self.srv = ThreadingHTTPServer(("127.0.0.1", 0), H)
        self.port = self.srv.server_address[1]
        self.thr = threading.Thread(target=self.srv.serve_forever, daemon=True)
        self.thr.start()

    def tags(self):
        with self.lock:
            return [t for t, _ in self.arrivals]

    def stop(self):
        self.srv.shutdown()


class Squid:
    def __init__(self, tree, helper_src, extra_auth_conf="", extra_conf="", children="2 startup=2 idle=1 concurrency=0"):
        self.tree = os.path.abspath(tree)
        self.dir = tempfile.mkdtemp(prefix="c46-")
        os.chmod(self.dir, 0o777)
        self.port = free_port()
        self.port2 = free_port()
        helper = os.path.join(self.dir, "helper.py")
        with open(helper, "w") as f:
            f.write(helper_src.replace("@PORT1@", str(self.port)).replace("@PORT2@", str(self.port2)))
        os.chmod(helper, 0o755)
        self.helper_log = os.path.join(self.dir, "helper.log")
        open(self.helper_log, "w").close()
        os.chmod(self.helper_log, 0o666)
        self.access_log = os.path.join(self.dir, "access.log")
        self.cache_log = os.path.join(self.dir, "cache.log")
        conf = f"""
http_port 127.0.0.1:{self.port}
http_port 127.0.0.1:{self.port2}
visible_hostname c46.test
{"cache_effective_user nobody" if os.getuid() == 0 else ""}
pid_filename {self.dir}/squid.pid
cache_log {self.cache_log}
logformat c46 %{{X-Tag}}>h|%un|%>Hs|%Ss
access_log stdio:{self.access_log} c46
coredump_dir {self.dir}
mime_table {self.tree}/src/mime.conf.default
icon_directory {self.tree}/icons
error_directory {self.tree}/errors/templates
unlinkd_program {self.tree}/src/unlinkd
cache deny all
shutdown_lifetime 0 seconds
dns_nameservers 127.0.0.1
auth_param basic program {PY} {helper} {self.helper_log}
auth_param basic children {children}
auth_param basic realm c46
auth_param basic credentialsttl 1 hour
{extra_auth_conf}
acl authed proxy_auth REQUIRED
{extra_conf}
http_access deny !authed
http_access allow all
"""
        self.conf = os.path.join(self.dir, "squid.conf")
        with open(self.conf, "w") as f:
            f.write(conf)
        self.out = open(os.path.join(self.dir, "squid.out"), "w")
        self.proc = subprocess.Popen([os.path.join(self.tree, "src", "squid"), "-N", "-f", self.conf],
                                     stdout=self.out, stderr=subprocess.STDOUT)
        deadline = time.time() + 60
        while time.time() < deadline:
            if self.proc.poll() is not None:
                raise RuntimeError("squid exited early; see " + self.dir)
            try:
                socket.create_connection(("127.0.0.1", self.port), timeout=0.5).close()
                break
            except OSError:
                time.sleep(0.2)
        else:
            raise RuntimeError("squid did not start; see " + self.dir)
        time.sleep(0.5)

    def access_lines(self):
        try:
            with open(self.access_log) as f:
                return [l.strip().split("|") for l in f if l.strip()]
        except OSError:
            return []

    def helper_lines(self):
        with open(self.helper_log) as f:
            return [l.rstrip("\n") for l in f]

    def stop(self, keep=False):
        if self.proc.poll() is None:
            self.proc.terminate()
            try:
                self.proc.wait(timeout=15)
            except subprocess.TimeoutExpired:
                self.proc.kill()
                self.proc.wait()
        self.out.close()
        if not keep:
            shutil.rmtree(self.dir, ignore_errors=True)


def basic(user, pw):
    return "Basic " + base64.b64encode(f"{user}:{pw}".encode()).decode()


def proxy_get(proxy_port, origin_port, tag, auth=None, path=None, timeout=20, src=None):
    """one request on a fresh connection; returns the HTTP status (int) or None"""
    s = socket.socket()
    if src:
        s.bind((src, 0))
    s.settimeout(timeout)
    s.connect(("127.0.0.1", proxy_port))
    path = path or "/" + tag
    req = f"GET http://127.0.0.1:{origin_port}{path} HTTP/1.1\r\nHost: 127.0.0.1:{origin_port}\r\nX-Tag: {tag}\r\n"
    if auth:
        req += f"Proxy-Authorization: {auth}\r\n"
    req += "Connection: close\r\n\r\n"
    s.sendall(req.encode())
    data = b""
    try:
        while True:
            d = s.recv(65536)
            if not d:
                break
            data += d
    except socket.timeout:
        pass
    s.close()
    try:
        return int(data.split(b" ", 2)[1])
    except Exception:
        return None
