#!/bin/bash
# usage: run.sh [tree-root] (default /repo); exit 0 = held, 1 = violated, 2 = build problem
here=$(cd "$(dirname "$0")" && pwd); root=${1:-/repo}
out=$(mktemp -d); trap 'rm -rf "$out"' EXIT
( cd "$root/src/sbuf" && make -j4 libsbuf.la >/dev/null 2>&1 ) || exit 2
( cd "$root/src/base" && make -j4 libbase.la >/dev/null 2>&1 ) || exit 2
( cd "$root/src" && make -j4 tests/stub_StatHist.o tests/stub_debug.o tests/stub_libmem.o >/dev/null 2>&1 ) || exit 2
g++ -std=c++17 -DHAVE_CONFIG_H -Wno-error -g -O1 -I"$root" -I"$root/include" -I"$root/src" -I"$root/lib" -c "$here/replay.cc" -o "$out/replay.o" || exit 2
g++ -std=c++17 -o "$out/replay" "$out/replay.o" "$root/src/tests/stub_StatHist.o" "$root/src/tests/stub_debug.o" "$root/src/tests/stub_libmem.o" \
    "$root/src/sbuf/.libs/libsbuf.a" "$root/src/base/.libs/libbase.a" "$root/compat/.libs/libcompatsquid.a" -lm -ldl || exit 2
"$out/replay"
