/* C48 replay: two limit tests of SBuf wrap in 32-bit unsigned arithmetic.
 *  (1) SBuf::chop(pos, n) clamps with `(pos+n) > length()`: substr(5, 0xfffffffe) wraps the sum to 3, nothing is clamped and the
 *      result claims a length of 4294967294 bytes (std::string::substr(5, 0xfffffffe) gives the 5 remaining bytes);
 *  (2) SBuf::rawSpace(minSpace) guards with Must(length() <= maxSize - minSpace): for minSpace > maxSize the difference wraps, the
 *      Must() passes and rawAppendStart(0xfffffff0) hands out a pointer (with no space behind it) instead of throwing. */
#include "squid.h"
#include "sbuf/SBuf.h"
#include <cstdio>
#include <string>
int main()
{
    int bad = 0;
    {
        SBuf s("0123456789");
        const std::string ref("0123456789");
        const SBuf t = s.substr(5, 0xfffffffeU);
        const std::string rt = ref.substr(5, 0xfffffffeU);
        printf("substr(5, 0xfffffffe): SBuf length=%u, std::string length=%zu\n", t.length(), rt.length());
        if (t.length() != rt.length()) {
            printf("VIOLATION: the result is not the clamped remainder\n");
            ++bad;
        }
    }
    {
        SBuf s("0123456789abcdef0123456789abcdef"); // length() >= 16: minSpace + length() wraps as well
        bool threw = false;
        try {
            char *p = s.rawAppendStart(0xfffffff0U);
            printf("rawAppendStart(0xfffffff0) returned %p, spaceSize()=%u\n", static_cast<void*>(p), s.spaceSize());
        } catch (...) {
            threw = true;
        }
        if (!threw) {
            printf("VIOLATION: a request beyond SBuf::maxSize did not throw\n");
            ++bad;
        }
    }
    printf("%s\n", bad ? "property violated" : "property held");
    return bad ? 1 : 0;
}
