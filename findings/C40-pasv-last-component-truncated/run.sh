#!/bin/bash
# usage: run.sh [tree-root]  (default /repo); exit 0 = held, 1 = violated, 2 = build problem
here=$(cd "$(dirname "$0")" && pwd)
root=${1:-/repo}; src=$root/src
out=$(mktemp -d); trap 'rm -rf "$out"' EXIT
(cd "$src/ftp" && make -j4 libftp.la >"$out/make.log" 2>&1) || { cat "$out/make.log"; exit 2; }
for o in stub_SBuf stub_debug stub_libmem stub_tools stub_MemBuf stub_HelperChildConfig stub_cbdata; do
    [ -f "$src/tests/$o.o" ] || (cd "$src" && make tests/$o.o >>"$out/make.log" 2>&1) || { cat "$out/make.log"; exit 2; }
done
g++ -std=c++17 -g -DHAVE_CONFIG_H -I"$root" -I"$root/include" -I"$root/lib" -I"$src" -o "$out/replay" "$here/replay.cc" \
    "$src/ftp/.libs/libftp.a" "$src/ip/.libs/libip.a" "$src/tests/stub_SBuf.o" "$src/tests/stub_debug.o" "$src/tests/stub_libmem.o" \
    "$src/tests/stub_tools.o" "$src/tests/stub_MemBuf.o" "$src/tests/stub_HelperChildConfig.o" "$src/tests/stub_cbdata.o" \
    "$src/base/.libs/libbase.a" "$root/compat/.libs/libcompatsquid.a" -lm -lnsl -ldl || exit 2
"$out/replay"
