/* C40 replay: Ftp::ParseIpPort() must reject "h1,h2,h3,h4,p1,p2" strings whose last component is out of range.
 * With width-limited conversions ("%3d") and no look at what follows the sixth field, "192,0,2,7,0,1000" is read as p2=100
 * (the 4th digit is left unread) and accepted as port 100; "…,4,2560" becomes port 4*256+256?? no: p2=256 is still rejected,
 * but "…,4,1000" -> 4*256+100 = 1124. */
#include "squid.h"
#include "ftp/Parsing.h"
#include "ip/Address.h"
#include "SquidConfig.h"
#include <cstdio>
class SquidConfig Config;
int main()
{
    Config.Ftp.sanitycheck = 0;
    int bad = 0;
    const char *reject[] = {"192,0,2,7,0,1000", "192,0,2,7,4,1000", "192,0,2,7,0,0255", "192,0,2,7,0,2555", "192,0,2,7,1,99999999999", nullptr};
    const char *accept[] = {"192,0,2,7,4,1", "192,0,2,7,4,1)", "192,0,2,7,4,100).", "192,0,2,7,0,255 ", nullptr};
    for (int i = 0; reject[i]; ++i) {
        Ip::Address a;
        if (Ftp::ParseIpPort(reject[i], nullptr, a)) {
            printf("VIOLATION: '%s' accepted as port %d\n", reject[i], a.port());
            ++bad;
        }
    }
    for (int i = 0; accept[i]; ++i) {
        Ip::Address a;
        if (!Ftp::ParseIpPort(accept[i], nullptr, a)) {
            printf("REGRESSION: well-formed '%s' rejected\n", accept[i]);
            ++bad;
        }
    }
    printf("%s\n", bad ? "property violated" : "property held");
    return bad ? 1 : 0;
}
