#!/usr/bin/env python3
"""
C16 crash-consistency driver.

Runs the built squid (TREE/src/squid) with one disk cache_dir against a local
origin, kills it (through the LD_PRELOAD shim) at the N-th write to a cache
file, restarts it without the shim and then asks for every URL with
"Cache-Control: only-if-cached".  A miss (504) is fine.  A hit must be
byte-identical to a complete response the origin had served for that URL
before the crash.  Squid must also start and stay alive.

usage: crashtest.py TREE SHIM.so --store rock|ufs|aufs --points N[,N...]|all
                    [--modes before,partial,after] [--keep]
exit status: 0 = property held at every tested crash point, 1 = violated,
             2 = harness problem
"""
import argparse
import hashlib
import http.client
import http.server
import os
import shutil
import signal
import socket
import subprocess
import sys
import tempfile
import threading
import time


def free_port():
    s = socket.socket()
    s.bind(("127.0.0.1", 0))
    p = s.getsockname()[1]
    s.close()
    return p


def body_for(name, version, size):
    """Deterministic body; every 32-byte line names object, version, offset."""
    out = bytearray()
    off = 0
    while off < size:
        line = ("%s v%d @%08d " % (name, version, off)).encode()
        line = line.ljust(31, b".") + b"\n"
        out += line
        off += len(line)
    return bytes(out[:size])


class Origin:
    def __init__(self):
        self.versions = {}   # name -> current version
        self.sizes = {}      # name -> body size
        self.vsizes = {}     # (name, version) -> body size override
        self.served = {}     # name -> {md5: version} of completely sent bodies
        self.lock = threading.Lock()
        origin = self

        class H(http.server.BaseHTTPRequestHandler):
            protocol_version = "HTTP/1.1"

            def log_message(self, *a):
                pass

            def do_GET(self):
                name = self.path.strip("/")
                with origin.lock:
                    v = origin.versions.get(name, 1)
                    size = origin.vsizes.get((name, v), origin.sizes.get(name, 1000))
                body = body_for(name, v, size)
                self.send_response(200)
                self.send_header("Content-Type", "application/octet-stream")
                self.send_header("Content-Length", str(len(body)))
                self.send_header("Cache-Control", "public, max-age=86400")
                self.send_header("ETag", '"%s-%d"' % (name, v))
                self.send_header("X-Version", str(v))
                self.end_headers()
                try:
                    self.wfile.write(body)
                    self.wfile.flush()
                except OSError:
                    return
                with origin.lock:
                    origin.served.setdefault(name, {})[hashlib.md5(body).hexdigest()] = v

        self.port = free_port()
        self.httpd = http.server.ThreadingHTTPServer(("127.0.0.1", self.port), H)
        self.httpd.daemon_threads = True
        self.httpd.handle_error = lambda *a: None  # squid dies mid-transfer by design
        self.thread = threading.Thread(target=self.httpd.serve_forever, daemon=True)
        self.thread.start()

    def stop(self):
        self.httpd.shutdown()
        self.httpd.server_close()


class Squid:
    def __init__(self, tree, work, store, origin_port, tag):
        self.tree = tree
        self.work = work
        self.store = store
        self.port = free_port()
        self.cachedir = os.path.join(work, "cache")
        self.service = "c16" + tag
        self.conf = os.path.join(work, "squid.conf")
        self.log = os.path.join(work, "cache.log")
        self.proc = None
        if store == "rock":
            cd = "cache_dir rock %s 2 max-size=200000" % self.cachedir
        else:
            cd = "cache_dir %s %s 2 2 2" % (store, self.cachedir)
        with open(self.conf, "w") as f:
            f.write("""
http_port 127.0.0.1:%(port)d
visible_hostname c16.test
cache_effective_user nobody
pid_filename %(work)s/squid.pid
cache_log %(work)s/cache.log
access_log stdio:%(work)s/access.log
coredump_dir %(work)s
mime_table %(tree)s/src/mime.conf.default
icon_directory %(tree)s/icons
error_directory %(tree)s/errors/templates
unlinkd_program %(tree)s/src/unlinkd
http_access allow all
shutdown_lifetime 0 seconds
dns_nameservers 127.0.0.1
cache_mem 0 MB
memory_cache_mode disk
maximum_object_size 200 KB
%(cd)s
cache_swap_low 60
cache_swap_high 70
workers 1
""" % dict(port=self.port, work=work, tree=tree, cd=cd))

    def _run(self, args, env=None, wait=True):
        cmd = [os.path.join(self.tree, "src", "squid"), "-n", self.service, "-f", self.conf] + args
        e = dict(os.environ)
        if env:
            e.update(env)
        p = subprocess.Popen(cmd, env=e, stdout=subprocess.DEVNULL, stderr=subprocess.DEVNULL)
        if wait:
            p.wait()
        return p

    def create(self):
        os.makedirs(self.cachedir, exist_ok=True)
        shutil.chown(self.work, "nobody")
        shutil.chown(self.cachedir, "nobody")
        self._run(["-N", "-z"])

    def start(self, env=None):
        self.proc = self._run(["-N"], env=env, wait=False)
        # wait for the port
        deadline = time.time() + 30
        while time.time() < deadline:
            if self.proc.poll() is not None:
                return False
            try:
                s = socket.create_connection(("127.0.0.1", self.port), timeout=0.5)
                s.close()
                return True
            except OSError:
                time.sleep(0.05)
        return False

    def wait_rebuilt(self, since_offset, timeout=60):
        deadline = time.time() + timeout
        while time.time() < deadline:
            if self.proc.poll() is not None:
                return False
            try:
                with open(self.log, "rb") as f:
                    f.seek(since_offset)
                    data = f.read()
            except OSError:
                data = b""
            if b"Completed Validation Procedure" in data:
                return True
            time.sleep(0.1)
        return False

    def log_size(self):
        try:
            return os.path.getsize(self.log)
        except OSError:
            return 0

    def alive(self):
        return self.proc is not None and self.proc.poll() is None

    def kill(self):
        if self.proc and self.proc.poll() is None:
            self.proc.send_signal(signal.SIGKILL)
            self.proc.wait()
        self.proc = None

    def cleanup_shm(self):
        for n in os.listdir("/dev/shm"):
            if n.startswith(self.service + "-"):
                try:
                    os.unlink(os.path.join("/dev/shm", n))
                except OSError:
                    pass


def fetch(squid_port, origin_port, name, headers=None, timeout=10):
    """returns (status, body or None if truncated/failed, x-cache)"""
    c = http.client.HTTPConnection("127.0.0.1", squid_port, timeout=timeout)
    try:
        h = {"Host": "127.0.0.1:%d" % origin_port}
        if headers:
            h.update(headers)
        c.request("GET", "http://127.0.0.1:%d/%s" % (origin_port, name), headers=h)
        r = c.getresponse()
        try:
            body = r.read()
        except (http.client.IncompleteRead, OSError) as e:
            partial = getattr(e, "partial", b"")
            return r.status, None, "truncated after %d bytes" % len(partial)
        return r.status, body, r.getheader("X-Cache", "") or r.getheader("Cache-Status", "")
    except (OSError, http.client.HTTPException) as e:
        return 0, None, "client error: %r" % (e,)
    finally:
        c.close()


def workload(origin, squid, sizes, mark=lambda label: None):
    """stores, overwrites and evictions; stops quietly when squid dies"""
    names = list(sizes)

    def get(name, hdr=None):
        if not squid.alive():
            raise ConnectionError
        st, body, _ = fetch(squid.port, origin.port, name, hdr, timeout=5)
        if st == 0:
            raise ConnectionError
        time.sleep(0.03)

    try:
        # 1. initial stores
        mark("store")
        for n in names:
            get(n)
        # 2. overwrites of already cached objects (new version, forced refetch)
        mark("overwrite")
        for n in names[:4]:
            with origin.lock:
                origin.versions[n] = 2
            get(n, {"Cache-Control": "no-cache"})
        # 3. more stores that push the small cache_dir over its limits
        time.sleep(1.2)  # let ufs maintain() evict
        mark("more")
        for n in names[4:8]:
            with origin.lock:
                origin.versions[n] = 2
            get(n, {"Cache-Control": "no-cache"})
        for n in names[:4]:
            with origin.lock:
                origin.versions[n] = 3
            get(n, {"Cache-Control": "no-cache"})
        time.sleep(1.2)
        mark("end")
    except ConnectionError:
        pass


def workload_shrink(origin, squid, sizes, mark=lambda label: None):
    """
    obj00 and obj01 are stored in (multi-slot) rock chains.  obj00 is then
    replaced by a tiny single-slot version, which leaves low-numbered free
    slots behind.  The following replacement of obj01 is written into those
    free slots, i.e. not on top of its own old chain: for a while the db file
    holds the old and the new chain of obj01, each with its own first slot.
    """
    def get(name, hdr=None):
        if not squid.alive():
            raise ConnectionError
        st, body, _ = fetch(squid.port, origin.port, name, hdr, timeout=5)
        if st == 0:
            raise ConnectionError
        time.sleep(0.05)

    try:
        mark("store")
        get("obj00")
        get("obj01")
        mark("shrink")
        with origin.lock:
            origin.versions["obj00"] = 2
            origin.vsizes[("obj00", 2)] = 500
        get("obj00", {"Cache-Control": "no-cache"})
        mark("overwrite")
        with origin.lock:
            origin.versions["obj01"] = 2
        get("obj01", {"Cache-Control": "no-cache"})
        mark("end")
        get("obj02")
    except ConnectionError:
        pass


WORKLOADS = {"generic": workload, "shrink": workload_shrink}
WORKLOAD = [workload]

MARKS = []  # (label, number of cache-file writes seen before that workload phase)


def one_run(tree, shim, store, point, mode, sizes, keep, tag):
    """returns (violations list, number of watched writes seen)"""
    work = tempfile.mkdtemp(prefix="c16-%s-" % store, dir=os.environ.get("C16_TMP", "/tmp"))
    os.chmod(work, 0o755)
    origin = Origin()
    origin.sizes = dict(sizes)
    squid = Squid(tree, work, store, origin.port, tag)
    violations = []
    writes = 0
    try:
        squid.cleanup_shm()
        squid.create()
        crashlog = os.path.join(work, "writes.log")
        env = {"LD_PRELOAD": shim, "CRASH_DIR": squid.cachedir, "CRASH_AT": str(point),
               "CRASH_MODE": mode, "CRASH_LOG": crashlog}
        off = squid.log_size()
        if not squid.start(env):
            return ["harness: squid did not start before the crash phase"], 0
        squid.wait_rebuilt(off, 30)
        def mark(label):
            if point == 0:
                time.sleep(0.3)
                try:
                    with open(crashlog) as f:
                        MARKS.append((label, sum(1 for _ in f)))
                except OSError:
                    MARKS.append((label, 0))

        WORKLOAD[0](origin, squid, sizes, mark)
        time.sleep(0.2)
        crashed = not squid.alive()
        squid.kill()  # crash (if the shim has not done so already)
        try:
            with open(crashlog) as f:
                writes = sum(1 for _ in f)
        except OSError:
            writes = 0
        if point and not crashed:
            return [], writes  # crash point beyond the end of the workload
        served_before = {n: dict(v) for n, v in origin.served.items()}

        # restart without the shim
        off = squid.log_size()
        if not squid.start():
            violations.append("squid did not start after the crash")
            return violations, writes
        if not squid.wait_rebuilt(off, 60):
            violations.append("squid did not finish rebuilding its index after the crash (alive=%s)" % squid.alive())
            return violations, writes
        time.sleep(0.3)
        for n in sizes:
            st, body, info = fetch(squid.port, origin.port, n, {"Cache-Control": "only-if-cached"})
            if st == 504:
                continue
            if st != 200:
                violations.append("%s: unexpected status %s (%s)" % (n, st, info))
                continue
            if body is None:
                violations.append("%s: hit %s" % (n, info))
                continue
            md5 = hashlib.md5(body).hexdigest()
            if md5 not in served_before.get(n, {}):
                head = body[:31].decode("latin1")
                tail = body[-32:-1].decode("latin1")
                violations.append("%s: hit body (%d bytes, first line %r, last line %r) is not a "
                                  "complete pre-crash origin response" % (n, len(body), head, tail))
        if not squid.alive():
            violations.append("squid died after the restart")
        return violations, writes
    finally:
        squid.kill()
        squid.cleanup_shm()
        origin.stop()
        if keep or (violations and os.environ.get("C16_KEEP_FAILED")):
            print("    (kept %s)" % work)
        else:
            shutil.rmtree(work, ignore_errors=True)


def main():
    ap = argparse.ArgumentParser()
    ap.add_argument("tree")
    ap.add_argument("shim")
    ap.add_argument("--store", default="rock")
    ap.add_argument("--points", default="all")
    ap.add_argument("--modes", default="before,partial")
    ap.add_argument("--objsize", type=int, default=60000)
    ap.add_argument("--keep", action="store_true")
    ap.add_argument("--workload", default="generic", choices=sorted(WORKLOADS))
    a = ap.parse_args()
    WORKLOAD[0] = WORKLOADS[a.workload]
    tree = os.path.abspath(a.tree)
    shim = os.path.abspath(a.shim)
    if os.geteuid() != 0:
        print("note: not root; cache_effective_user is ignored by squid")

    sizes = {}
    for i in range(12):
        sizes["obj%02d" % i] = a.objsize + 1000 * i

    tag = "%05d" % (os.getpid() % 100000)
    # calibration run: count writes without crashing
    v, total = one_run(tree, shim, a.store, 0, "before", sizes, False, tag)
    print("calibration: %d cache-file writes in the whole workload" % total)
    if total == 0:
        print("harness problem: no writes observed")
        return 2
    bad = 0
    print("kill after the end of the workload: %s" % ("ok" if not v else "VIOLATION"))
    for x in v:
        print("    " + x)
    if v:
        bad += 1
    print("workload phases start after write #: %s" % MARKS)
    if a.points == "all":
        points = list(range(1, total + 1))
    elif a.points.startswith("phase:"):
        # phase:NAME[:COUNT] = the first COUNT (default: all) writes of a phase
        parts = a.points.split(":")
        labels = [m[0] for m in MARKS]
        i = labels.index(parts[1])
        first = MARKS[i][1] + 1
        last = MARKS[i + 1][1] if i + 1 < len(MARKS) else total
        if len(parts) > 2:
            last = min(last, first + int(parts[2]) - 1)
        points = list(range(first, last + 1))
    else:
        points = [int(x) for x in a.points.split(",")]
    for p in points:
        for m in a.modes.split(","):
            v, _ = one_run(tree, shim, a.store, p, m, sizes, a.keep, tag)
            print("crash at write %3d (%s): %s" % (p, m, "ok" if not v else "VIOLATION"))
            for x in v:
                print("    " + x)
            if v:
                bad += 1
    print("%d violating crash point(s) out of %d tested" % (bad, 1 + len(points) * len(a.modes.split(","))))
    return 1 if bad else 0


if __name__ == "__main__":
    sys.exit(main())
