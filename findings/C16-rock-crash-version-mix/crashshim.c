/*
 * LD_PRELOAD write interceptor used by the C16 crash-consistency demos.
 *
 * Counts write()/pwrite()/pwrite64()/writev() calls whose file descriptor
 * refers to a regular file below $CRASH_DIR.  When the counter reaches
 * $CRASH_AT the process is killed with SIGKILL:
 *   CRASH_MODE=before  : the N-th write is not performed at all
 *   CRASH_MODE=partial : only the first half of the N-th write is performed
 *   CRASH_MODE=after   : the N-th write is performed completely, then kill
 * Every counted write is appended to $CRASH_LOG (if set) as
 *   "<n> <path> <offset> <len>\n".
 * CRASH_AT=0 (or unset) only counts/logs.
 */
#define _GNU_SOURCE
#include <dlfcn.h>
#include <fcntl.h>
#include <signal.h>
#include <stdio.h>
#include <stdlib.h>
#include <string.h>
#include <sys/stat.h>
#include <sys/types.h>
#include <sys/uio.h>
#include <unistd.h>

static ssize_t (*real_write)(int, const void *, size_t);
static ssize_t (*real_pwrite)(int, const void *, size_t, off_t);
static ssize_t (*real_writev)(int, const struct iovec *, int);

static const char *crashDir;
static size_t crashDirLen;
static long crashAt;
static int crashMode; /* 0 before, 1 partial, 2 after */
static int logFd = -1;
static long counter;
static int inited;

static void init(void)
{
    if (inited)
        return;
    inited = 1;
    real_write = dlsym(RTLD_NEXT, "write");
    real_pwrite = dlsym(RTLD_NEXT, "pwrite");
    real_writev = dlsym(RTLD_NEXT, "writev");
    crashDir = getenv("CRASH_DIR");
    crashDirLen = crashDir ? strlen(crashDir) : 0;
    const char *at = getenv("CRASH_AT");
    crashAt = at ? atol(at) : 0;
    const char *mode = getenv("CRASH_MODE");
    if (mode && !strcmp(mode, "partial"))
        crashMode = 1;
    else if (mode && !strcmp(mode, "after"))
        crashMode = 2;
    const char *log = getenv("CRASH_LOG");
    if (log)
        logFd = open(log, O_WRONLY | O_CREAT | O_APPEND | O_CLOEXEC, 0644);
}

/* returns 1 if fd is a regular file below crashDir; fills path */
static int watched(int fd, char *path, size_t pathSize)
{
    if (!crashDirLen || fd == logFd)
        return 0;
    char link[64];
    snprintf(link, sizeof(link), "/proc/self/fd/%d", fd);
    ssize_t n = readlink(link, path, pathSize - 1);
    if (n <= 0)
        return 0;
    path[n] = '\0';
    if (strncmp(path, crashDir, crashDirLen) != 0)
        return 0;
    struct stat sb;
    if (fstat(fd, &sb) != 0 || !S_ISREG(sb.st_mode))
        return 0;
    return 1;
}

static void die(void)
{
    kill(getpid(), SIGKILL);
    for (;;)
        pause();
}

/* returns: -1 not watched / proceed normally; otherwise the number of bytes
 * the caller may write before dying (0 = die now), via *dieAfter=1 */
static int account(int fd, off_t off, size_t len, size_t *allowed, int *dieAfter)
{
    char path[4096];
    *dieAfter = 0;
    *allowed = len;
    if (!watched(fd, path, sizeof(path)))
        return 0;
    ++counter;
    if (logFd >= 0) {
        char line[4300];
        if (off == (off_t)-1)
            off = lseek(fd, 0, SEEK_CUR);
        int l = snprintf(line, sizeof(line), "%ld %s %lld %zu\n", counter, path, (long long)off, len);
        real_write(logFd, line, l);
    }
    if (crashAt > 0 && counter == crashAt) {
        if (crashMode == 0)
            die();
        *dieAfter = 1;
        if (crashMode == 1)
            *allowed = len / 2;
    }
    return 1;
}

ssize_t write(int fd, const void *buf, size_t len)
{
    init();
    size_t allowed;
    int dieAfter;
    account(fd, (off_t)-1, len, &allowed, &dieAfter);
    ssize_t r = real_write(fd, buf, allowed);
    if (dieAfter)
        die();
    return r;
}

ssize_t pwrite(int fd, const void *buf, size_t len, off_t off)
{
    init();
    size_t allowed;
    int dieAfter;
    account(fd, off, len, &allowed, &dieAfter);
    ssize_t r = real_pwrite(fd, buf, allowed, off);
    if (dieAfter)
        die();
    return r;
}

ssize_t pwrite64(int fd, const void *buf, size_t len, off_t off)
{
    return pwrite(fd, buf, len, off);
}

ssize_t writev(int fd, const struct iovec *iov, int iovcnt)
{
    init();
    size_t total = 0;
    for (int i = 0; i < iovcnt; ++i)
        total += iov[i].iov_len;
    size_t allowed;
    int dieAfter;
    account(fd, (off_t)-1, total, &allowed, &dieAfter);
    if (dieAfter && allowed < total) {
        /* partial: write the first iovec(s) byte-wise up to allowed */
        size_t left = allowed;
        for (int i = 0; i < iovcnt && left > 0; ++i) {
            size_t l = iov[i].iov_len < left ? iov[i].iov_len : left;
            real_write(fd, iov[i].iov_base, l);
            left -= l;
        }
        die();
    }
    ssize_t r = real_writev(fd, iov, iovcnt);
    if (dieAfter)
        die();
    return r;
}
