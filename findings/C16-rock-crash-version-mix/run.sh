#!/bin/sh
# Replay for the C16 finding (rock): squid is SIGKILLed at disk-write boundaries while cached multi-slot entries are being overwritten in place
# (phase "overwrite" of the workload), restarted, and every URL is requested with only-if-cached.  A 200 must be byte-identical to one complete origin response.
# usage: run.sh [TREE] [COUNT]   exit 0 = held at every tested crash point, 1 = violated
here=$(cd "$(dirname "$0")" && pwd)
tree=${1:-/repo}
count=${2:-8}
work=$(mktemp -d /tmp/c16-finding.XXXXXX) || exit 2
chmod 755 "$work"
trap 'rm -rf "$work"' EXIT
gcc -O1 -shared -fPIC -o "$work/crashshim.so" "$here/crashshim.c" -ldl || exit 2
C16_TMP="$work" python3 "$here/crashtest.py" "$tree" "$work/crashshim.so" --store rock --workload generic --points phase:overwrite:$count --modes before
