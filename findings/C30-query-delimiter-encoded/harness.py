#!/usr/bin/env python3
"""Tiny loopback harness: starts a recording origin server and the built squid
binary (src/squid of the tree given), lets a test send raw requests through the
proxy and inspect what (if anything) reached the origin."""
import os, socket, subprocess, sys, tempfile, threading, time, shutil

VISIBLE_HOSTNAME = "c63squid.test"


def free_port():
    s = socket.socket()
    s.bind(("127.0.0.1", 0))
    p = s.getsockname()[1]
    s.close()
    return p


class Origin(threading.Thread):
    """Records the raw header block of every request that arrives."""

    def __init__(self):
        super().__init__(daemon=True)
        self.sock = socket.socket()
        self.sock.setsockopt(socket.SOL_SOCKET, socket.SO_REUSEADDR, 1)
        self.sock.bind(("127.0.0.1", 0))
        self.sock.listen(16)
        self.port = self.sock.getsockname()[1]
        self.arrivals = []  # list of (request_line, {lower-name: [values]}, raw)
        self.lock = threading.Lock()

    def run(self):
        while True:
            try:
                c, _ = self.sock.accept()
            except OSError:
                return
            threading.Thread(target=self.serve, args=(c,), daemon=True).start()

    def serve(self, c):
        c.settimeout(5)
        buf = b""
        try:
            while b"\r\n\r\n" not in buf:
                d = c.recv(65536)
                if not d:
                    break
                buf += d
            if b"\r\n\r\n" in buf:
                head = buf.split(b"\r\n\r\n", 1)[0].decode("latin-1")
                lines = head.split("\r\n")
                hdrs = {}
                for l in lines[1:]:
                    n, _, v = l.partition(":")
                    hdrs.setdefault(n.strip().lower(), []).append(v.strip())
                with self.lock:
                    self.arrivals.append((lines[0], hdrs, head))
                body = b"origin-says-hi\n"
                c.sendall(b"HTTP/1.1 200 OK\r\nContent-Type: text/plain\r\n"
                          b"Cache-Control: no-store\r\nConnection: close\r\n"
                          b"Content-Length: %d\r\n\r\n%s" % (len(body), body))
        except OSError:
            pass
        finally:
            c.close()

    def take(self):
        with self.lock:
            a, self.arrivals = self.arrivals, []
        return a


class Squid:
    def __init__(self, tree, extra_conf=""):
        self.tree = os.path.abspath(tree)
        self.dir = tempfile.mkdtemp(prefix="c63-squid-")
        self.port = free_port()
        user_line = ""
        if os.geteuid() == 0:
            # squid refuses to run as root; drop to nobody
            os.chmod(self.dir, 0o777)
            user_line = "cache_effective_user nobody"
        conf = f"""
http_port 127.0.0.1:{self.port}
visible_hostname {VISIBLE_HOSTNAME}
cache deny all
cache_mem 0 MB
access_log stdio:{self.dir}/access.log
cache_log {self.dir}/cache.log
pid_filename {self.dir}/squid.pid
coredump_dir {self.dir}
{user_line}
mime_table {self.tree}/src/mime.conf.default
icon_directory {self.tree}/icons
error_directory {self.tree}/errors/templates
unlinkd_program {self.tree}/src/unlinkd
http_access allow all
shutdown_lifetime 0 seconds
dns_nameservers 127.0.0.1
{extra_conf}
"""
        self.conf = os.path.join(self.dir, "squid.conf")
        with open(self.conf, "w") as f:
            f.write(conf)
        self.proc = None

    def start(self):
        self.proc = subprocess.Popen(
            [os.path.join(self.tree, "src", "squid"), "-N", "-f", self.conf],
            stdout=open(os.path.join(self.dir, "stdout"), "w"),
            stderr=subprocess.STDOUT)
        deadline = time.time() + 30
        while time.time() < deadline:
            if self.proc.poll() is not None:
                raise RuntimeError("squid exited early; see " + self.dir)
            try:
                socket.create_connection(("127.0.0.1", self.port), 0.5).close()
                return
            except OSError:
                time.sleep(0.2)
        raise RuntimeError("squid did not start listening; see " + self.dir)

    def stop(self):
        if self.proc and self.proc.poll() is None:
            self.proc.terminate()
            try:
                self.proc.wait(10)
            except subprocess.TimeoutExpired:
                self.proc.kill()
        if not os.environ.get("C63_KEEP"):
            shutil.rmtree(self.dir, ignore_errors=True)

    def request(self, raw, timeout=10, port=None):
        """Send raw bytes on a fresh connection; return (status, full reply text)."""
        s = socket.create_connection(("127.0.0.1", port or self.port), 5)
        s.settimeout(timeout)
        s.sendall(raw)
        buf = b""
        try:
            while True:
                d = s.recv(65536)
                if not d:
                    break
                buf += d
                if b"\r\n\r\n" in buf:
                    head, _, body = buf.partition(b"\r\n\r\n")
                    cl = None
                    for l in head.split(b"\r\n")[1:]:
                        if l.lower().startswith(b"content-length:"):
                            cl = int(l.split(b":", 1)[1])
                    if cl is not None and len(body) >= cl:
                        break
        except socket.timeout:
            pass
        s.close()
        text = buf.decode("latin-1")
        status = int(text.split(" ", 2)[1]) if text.startswith("HTTP/") else None
        return status, text
