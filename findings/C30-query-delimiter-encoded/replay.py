#!/usr/bin/env python3
"""Replay for the C30 finding: AnyP::Uri::absolutePath() percent-encodes the path-and-query string with a character set that lacks '?'.
Squid keeps path and query together in Uri::path_, so the canonical form of http://host/p?x=y is http://host/p%3Fx=y: re-parsing it
does not give the same path, and the request line sent to the origin has lost its query delimiter.

usage: replay.py <squid tree>    exit 0: the origin receives the request-target the client sent; exit 1: it was altered"""
import os, sys
sys.path.insert(0, os.path.dirname(os.path.abspath(__file__)))
from harness import Origin, Squid

tree = sys.argv[1] if len(sys.argv) > 1 else "/repo"
o = Origin(); o.start()
sq = Squid(tree); sq.start()
bad = 0
try:
    for target in ("/p?x=y&z=1", "/cgi-bin/q?a=b?c", "/plain/path", "/p%3Fliteral?real=1"):
        st, _ = sq.request(("GET http://127.0.0.1:%d%s HTTP/1.1\r\nHost: 127.0.0.1:%d\r\n\r\n" % (o.port, target, o.port)).encode())
        got = [a[0] for a in o.take()]
        want = "GET %s HTTP/1.1" % target
        ok = got == [want]
        bad += not ok
        print("%-4s client sent %-24s origin received %s" % ("ok" if ok else "BAD", target, got))
finally:
    sq.stop()
print("VIOLATED: the canonical form changed the request-target" if bad else "held")
sys.exit(1 if bad else 0)
