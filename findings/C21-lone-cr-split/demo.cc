#include "squid.h"
#include "http/one/RequestParser.h"
#include "http/one/ResponseParser.h"
#include "http/RequestMethod.h"
#include "SquidConfig.h"
#include "sbuf/SBuf.h"
#include "mem/forward.h"
#include <iostream>
#include <string>
#include <vector>

static void run(const char *label, const std::vector<std::string> &pieces, int relaxed)
{
    Config.onoff.relaxed_header_parser = relaxed;
    Config.maxRequestHeaderSize = 65536;
    Http1::RequestParserPointer hp = new Http1::RequestParser(false);
    SBuf inBuf;
    bool ok = false;
    for (const auto &p: pieces) {
        inBuf.append(p.data(), p.size());
        ok = hp->parse(inBuf);
        inBuf = hp->remaining();
        if (!hp->needsMoreData())
            break;
    }
    std::cout << label << " relaxed=" << relaxed << ": ok=" << ok << " needsMore=" << hp->needsMoreData() << " status=" << int(hp->parseStatusCode)
              << " method=" << hp->method().image() << " uri=" << hp->requestUri() << " remaining=" << hp->remaining().length() << std::endl;
}

int main()
{
    Mem::Init();
    const std::string req = "GET / HTTP/1.1\r\nHost: x\r\n\r\n";
    run("one-shot  CRLF+request", {"\r\n" + req}, 1);
    run("split CR | LF+request ", {"\r", "\n" + req}, 1);
    run("split CRLF | request   ", {"\r\n", req}, 1);
    return 0;
}
