#!/usr/bin/env python3
"""Loopback harness: python origin + built squid + scripted client.

Usage: harness.py <tree-root> <scenario-name> [...]
Exit 0 = property held for all scenarios, 1 = violated, 2 = harness trouble.
"""
import http.server, socketserver, threading, socket, subprocess, sys, os, time, tempfile, shutil, collections

class Origin(http.server.BaseHTTPRequestHandler):
    protocol_version = "HTTP/1.1"
    hits = collections.Counter()      # (method, path) -> count
    lock = threading.Lock()

    def log_message(self, *a):
        pass

    def _count(self):
        with Origin.lock:
            Origin.hits[(self.command, self.path)] += 1
            return Origin.hits[(self.command, self.path)]

    def _cacheable(self, head=False):
        n = self._count()
        body = ("%s %s generation %d\n" % (self.command, self.path, n)).encode()
        self.send_response(200)
        self.send_header("Content-Type", "text/plain")
        self.send_header("Cache-Control", "public, max-age=3600")
        self.send_header("Content-Length", str(len(body)))
        self.end_headers()
        if not head:
            self.wfile.write(body)

    def do_GET(self):
        self._cacheable()

    def do_HEAD(self):
        self._cacheable(head=True)

    def _unsafe(self):
        self._count()
        n = int(self.headers.get("Content-Length") or 0)
        if n:
            self.rfile.read(n)
        status = int(self.headers.get("X-Want-Status") or 200)
        body = b"" if status in (204, 304) else b"done\n"
        self.send_response(status)
        for want, name in (("X-Want-Location", "Location"), ("X-Want-Content-Location", "Content-Location")):
            v = self.headers.get(want)
            if v is not None:
                self.send_header(name, v)
        self.send_header("Content-Length", str(len(body)))
        self.end_headers()
        self.wfile.write(body)

    do_POST = do_PUT = do_DELETE = do_PATCH = _unsafe

class ThreadedServer(socketserver.ThreadingMixIn, http.server.HTTPServer):
    daemon_threads = True
    allow_reuse_address = True

def harness_trouble(msg):
    print("HARNESS: " + msg, file=sys.stderr)
    sys.exit(2)

def free_port():
    s = socket.socket(); s.bind(("127.0.0.1", 0)); p = s.getsockname()[1]; s.close(); return p

class Proxy:
    def __init__(self, root):
        self.root = os.path.abspath(root)
        self.dir = tempfile.mkdtemp(prefix="c20demo-")
        os.chmod(self.dir, 0o777)
        self.port = free_port()
        conf = os.path.join(self.dir, "squid.conf")
        with open(conf, "w") as f:
            f.write("""
http_port 127.0.0.1:%(port)d
visible_hostname c20demo
%(user)s
pid_filename %(d)s/squid.pid
cache_log %(d)s/cache.log
access_log stdio:%(d)s/access.log
coredump_dir %(d)s
mime_table %(r)s/src/mime.conf.default
icon_directory %(r)s/icons
error_directory %(r)s/errors/templates
unlinkd_program %(r)s/src/unlinkd
http_access allow all
shutdown_lifetime 0 seconds
dns_nameservers 127.0.0.1
cache_mem 16 MB
""" % dict(port=self.port, d=self.dir, r=self.root,
           user=("cache_effective_user nobody" if os.getuid() == 0 else "")))
        self.proc = subprocess.Popen([os.path.join(self.root, "src/squid"), "-N", "-f", conf],
                                     stdout=subprocess.DEVNULL, stderr=subprocess.DEVNULL)
        deadline = time.time() + 60
        while time.time() < deadline:
            if self.proc.poll() is not None:
                harness_trouble("squid exited early, see %s/cache.log" % self.dir)
            try:
                socket.create_connection(("127.0.0.1", self.port), timeout=1).close()
                return
            except OSError:
                time.sleep(0.2)
        harness_trouble("squid did not start listening")

    def stop(self, keep=False):
        self.proc.terminate()
        try:
            self.proc.wait(10)
        except subprocess.TimeoutExpired:
            self.proc.kill()
        if not keep:
            shutil.rmtree(self.dir, ignore_errors=True)

def request(proxy_port, method, url, headers=None, body=None):
    """One request over a fresh proxy connection; returns (status, headers-text, body)."""
    hdrs = {"Host": url.split("/")[2], "Connection": "close"}
    if body is not None:
        hdrs["Content-Length"] = str(len(body))
    hdrs.update(headers or {})
    msg = "%s %s HTTP/1.1\r\n" % (method, url) + "".join("%s: %s\r\n" % kv for kv in hdrs.items()) + "\r\n"
    s = socket.create_connection(("127.0.0.1", proxy_port), timeout=20)
    s.sendall(msg.encode() + (body or b""))
    data = b""
    while True:
        chunk = s.recv(65536)
        if not chunk:
            break
        data += chunk
    s.close()
    head, _, rest = data.partition(b"\r\n\r\n")
    lines = head.decode("latin-1").split("\r\n")
    return int(lines[0].split()[1]), "\n".join(lines[1:]), rest

class Bench:
    def __init__(self, root):
        self.osrv = ThreadedServer(("127.0.0.1", 0), Origin)
        self.oport = self.osrv.server_address[1]
        threading.Thread(target=self.osrv.serve_forever, daemon=True).start()
        self.proxy = Proxy(root)
        self.base = "http://127.0.0.1:%d" % self.oport
        self.failed = []

    def hits(self, method, path):
        return Origin.hits[(method, path)]

    def get(self, path, method="GET"):
        return request(self.proxy.port, method, self.base + path)

    def unsafe(self, method, path, status=200, location=None, content_location=None):
        h = {"X-Want-Status": str(status)}
        if location is not None:
            h["X-Want-Location"] = location
        if content_location is not None:
            h["X-Want-Content-Location"] = content_location
        return request(self.proxy.port, method, self.base + path, h, b"x=1")

    def prime(self, path, method="GET"):
        """Fetch twice; the second must be a cache hit, else the scenario proves nothing."""
        self.get(path, method)
        before = self.hits(method, path)
        self.get(path, method)
        if self.hits(method, path) != before:
            self.proxy.stop(); harness_trouble("%s %s was not cached by squid; cannot test" % (method, path))

    def expect_refetch(self, label, path, method="GET"):
        before = self.hits(method, path)
        st, _, body = self.get(path, method)
        after = self.hits(method, path)
        ok = after == before + 1
        print("%-4s %s: follow-up %s %s -> status %d, origin contacted: %s" %
              ("ok" if ok else "FAIL", label, method, path, st, "yes" if ok else "NO (stale cached response served)"))
        if not ok:
            self.failed.append(label)
        return ok

    def finish(self):
        self.proxy.stop()
        self.osrv.shutdown()
        if self.failed:
            print("PROPERTY VIOLATED in: " + ", ".join(self.failed))
            return 1
        print("property held")
        return 0
