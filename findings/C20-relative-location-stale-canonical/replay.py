#!/usr/bin/env python3
"""Replay for the C20 finding: a rootless relative reference in Location / Content-Location ("e" on a request for /d/form names /d/e)
does not invalidate the named URL.  AnyP::Uri::addRelativePath() rewrites path_ without calling touch(), so the copy made in
purgeEntriesByHeader() still returns the *request's* cached absolute() form: the request URL is purged twice, /d/e not at all.

usage: replay.py <squid tree>    exit 0 = the named URL is refetched after the unsafe request; 1 = the stale copy is served"""
import os, sys
sys.path.insert(0, os.path.dirname(os.path.abspath(__file__)))
from harness import Bench

b = Bench(sys.argv[1] if len(sys.argv) > 1 else "/repo")
b.prime("/d/c1"); b.unsafe("POST", "/d/form1", 303, location="/d/c1")
b.expect_refetch("control: absolute-path Location", "/d/c1")
b.prime("/d/e"); b.unsafe("POST", "/d/form", 303, location="e")
b.expect_refetch("rootless relative Location: `Location: e` on POST /d/form", "/d/e")
b.prime("/d/f"); b.unsafe("PUT", "/d/upload", 200, content_location="f")
b.expect_refetch("rootless relative Content-Location: `Content-Location: f` on PUT /d/upload", "/d/f")
sys.exit(b.finish())
