#!/usr/bin/env python3
"""Replay for the C40 finding: Ftp::Client::handleEpsvReply reads the EPSV port with sscanf("%hu") into an unsigned short.
A reply "229 Entering Extended Passive Mode (|||70000|)" is out of range (1..65535) and must be rejected (squid then falls back to
PASV); with the defect squid accepts it as port 70000 mod 65536 = 4464 and opens the data connection to that port.

Second scenario (mode "pasv"): EPSV is refused and the PASV reply is "227 (999,999,999,999,<4294967296 + hi>,<lo>)": every
component is out of range (the address octets are not checked at all when the IP is forced to the control peer, and sscanf("%d")
wraps 4294967296 + hi to hi), yet squid opens the data connection to port hi*256+lo.

usage: replay.py <squid tree> [epsv|pasv]     exit 0: bogus reply rejected; exit 1: squid opened the data connection"""
import os, socket, sys, threading, time
sys.path.insert(0, os.path.dirname(os.path.abspath(__file__)))
from harness import Squid

WRAPPED = 70000 - 65536          # 4464
tree = sys.argv[1] if len(sys.argv) > 1 else "/repo"
mode = sys.argv[2] if len(sys.argv) > 2 else "epsv"

wrapped_hits = []
data_hits = []


def listener(port, hits, payload):
    s = socket.socket(); s.setsockopt(socket.SOL_SOCKET, socket.SO_REUSEADDR, 1); s.bind(("127.0.0.1", port)); s.listen(4)
    def run():
        while True:
            try:
                c, _ = s.accept()
            except OSError:
                return
            hits.append(time.time())
            try:
                c.sendall(payload)
            except OSError:
                pass
            c.close()
    threading.Thread(target=run, daemon=True).start()
    return s


wl = listener(WRAPPED, wrapped_hits, b"data-from-the-wrapped-port\n")
dl = listener(0, data_hits, b"data-from-the-PASV-port\n")
dport = dl.getsockname()[1]
log = []


def ftp_ctrl(c):
    def send(l):
        log.append("S: " + l); c.sendall((l + "\r\n").encode())
    send("220 fake ftp ready")
    f = c.makefile("rb")
    while True:
        ln = f.readline()
        if not ln:
            return
        cmd = ln.decode("latin-1").strip(); log.append("C: " + cmd)
        verb = cmd.split(" ")[0].upper()
        if verb == "USER": send("331 need password")
        elif verb == "PASS": send("230 logged in")
        elif verb == "TYPE": send("200 ok")
        elif verb in ("CWD",): send("250 ok")
        elif verb in ("MDTM", "SIZE"): send("550 no")
        elif verb == "EPSV" and mode == "epsv": send("229 Entering Extended Passive Mode (|||70000|)")
        elif verb == "EPSV": send("500 no EPSV here")
        elif verb == "PASV" and mode == "pasv": send("227 Entering Passive Mode (999,999,999,999,%d,%d)" % (4294967296 + (dport >> 8), dport & 255))
        elif verb == "PASV": send("227 Entering Passive Mode (127,0,0,1,%d,%d)" % (dport >> 8, dport & 255))
        elif verb == "RETR":
            send("150 opening"); time.sleep(0.5); send("226 done")
        elif verb == "QUIT":
            send("221 bye"); return
        else: send("500 what")


cs = socket.socket(); cs.setsockopt(socket.SOL_SOCKET, socket.SO_REUSEADDR, 1); cs.bind(("127.0.0.1", 0)); cs.listen(4)
cport = cs.getsockname()[1]
def accept_ctrl():
    while True:
        try:
            c, _ = cs.accept()
        except OSError:
            return
        threading.Thread(target=ftp_ctrl, args=(c,), daemon=True).start()
threading.Thread(target=accept_ctrl, daemon=True).start()

sq = Squid(tree, extra_conf="acl Safe_ports port 1-65535\nftp_passive on\n")
sq.start()
try:
    status, text = sq.request(("GET ftp://127.0.0.1:%d/file.bin HTTP/1.1\r\nHost: 127.0.0.1:%d\r\nConnection: close\r\n\r\n" % (cport, cport)).encode(), timeout=15)
finally:
    sq.stop()
print("\n".join(log))
print("client status:", status)
print("connections to wrapped port %d: %d; to the PASV data port: %d" % (WRAPPED, len(wrapped_hits), len(data_hits)))
if mode == "epsv":
    if wrapped_hits:
        print("VIOLATED: EPSV port 70000 was accepted as %d" % WRAPPED); sys.exit(1)
    print("held: out-of-range EPSV port rejected"); sys.exit(0)
if data_hits:
    print("VIOLATED: a 227 reply whose six components are all out of range yielded an address (data connection opened)"); sys.exit(1)
print("held: out-of-range PASV reply rejected"); sys.exit(0)
