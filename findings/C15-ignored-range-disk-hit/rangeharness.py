#!/usr/bin/env python3
"""
Loopback harness for the "Range responses contain exactly the requested bytes"
property.

  rangeharness.py <squid-tree-root> <cases.json>

Starts a tiny python origin server (always answers 200 with the complete,
position-encoding object and never honours Range itself), starts the squid
binary built in <squid-tree-root>/src with a private configuration, primes the
cache where the case asks for it, sends the Range requests and checks every
response against the origin object:

  200  -> body is the complete object
  206  -> single part: Content-Range a-b/N and body == object[a:b+1];
          multipart/byteranges: the same for every part, closing delimiter
          present; the list of parts equals the list of satisfiable requested
          ranges, in request order
  416  -> only acceptable when no requested range is satisfiable
  Content-Length (when present) equals the number of body bytes received.

Exit status 0 = property held for every case, 1 = violated, 2 = harness trouble.
"""
import json
import os
import re
import shutil
import signal
import socket
import subprocess
import sys
import tempfile
import threading
import time
from http.server import BaseHTTPRequestHandler, ThreadingHTTPServer


def make_object(size, seed):
    # every 8-byte cell encodes its own position, so any misplaced slice shows
    out = bytearray()
    i = 0
    while len(out) < size:
        out += ("%s%06x\n" % (chr(ord('A') + seed % 26), i)).encode()
        i += 8
    return bytes(out[:size])


class Origin(BaseHTTPRequestHandler):
    protocol_version = "HTTP/1.1"
    hits = []

    def log_message(self, *a):
        pass

    def do_GET(self):
        m = re.match(r"^/o/(\d+)/(\d+)$", self.path)
        if not m:
            self.send_error(404)
            return
        size, seed = int(m.group(1)), int(m.group(2))
        Origin.hits.append((self.path, self.headers.get("Range")))
        body = make_object(size, seed)
        self.send_response(200)
        self.send_header("Content-Type", "application/octet-stream")
        self.send_header("Content-Length", str(len(body)))
        self.send_header("Cache-Control", "public, max-age=86400")
        self.send_header("Last-Modified", "Mon, 01 Jan 2024 00:00:00 GMT")
        self.send_header("ETag", '"v-%d-%d"' % (size, seed))
        self.send_header("Connection", "close")
        self.end_headers()
        self.wfile.write(body)
        self.close_connection = True


def free_port():
    s = socket.socket()
    s.bind(("127.0.0.1", 0))
    p = s.getsockname()[1]
    s.close()
    return p


def fetch(proxy_port, url, headers, timeout=8.0):
    s = socket.create_connection(("127.0.0.1", proxy_port), timeout=timeout)
    req = "GET %s HTTP/1.1\r\nHost: %s\r\n" % (url, url.split("/")[2])
    for k, v in headers:
        req += "%s: %s\r\n" % (k, v)
    req += "Connection: close\r\n\r\n"
    s.sendall(req.encode())
    data = b""
    timed_out = False
    try:
        while True:
            chunk = s.recv(65536)
            if not chunk:
                break
            data += chunk
    except socket.timeout:
        timed_out = True
    s.close()
    head, sep, body = data.partition(b"\r\n\r\n")
    if not sep:
        return None, {}, data, timed_out
    lines = head.decode("latin-1").split("\r\n")
    status = int(lines[0].split()[1])
    hdrs = {}
    for ln in lines[1:]:
        k, _, v = ln.partition(":")
        hdrs[k.strip().lower()] = v.strip()
    if hdrs.get("transfer-encoding", "").lower() == "chunked":
        out = b""
        rest = body
        while True:
            ln, _, rest = rest.partition(b"\r\n")
            n = int(ln.split(b";")[0] or b"0", 16)
            if n == 0:
                break
            out += rest[:n]
            rest = rest[n + 2:]
        body = out
    return status, hdrs, body, timed_out


def satisfiable(specs, size):
    """reference model: list of (first,last) for satisfiable specs, in order"""
    out = []
    for sp in specs:
        sp = sp.strip()
        if sp.startswith("-"):
            n = int(sp[1:])
            if n <= 0 or size == 0:
                continue
            out.append((max(0, size - n), size - 1))
        else:
            a, _, b = sp.partition("-")
            a = int(a)
            if a >= size:
                continue
            b = size - 1 if b == "" else min(int(b), size - 1)
            out.append((a, b))
    return out


def check_part(cr, body, obj, where, errs):
    m = re.match(r"^bytes (\d+)-(\d+)/(\d+)$", cr or "")
    if not m:
        errs.append("%s: bad Content-Range %r" % (where, cr))
        return None
    a, b, n = int(m.group(1)), int(m.group(2)), int(m.group(3))
    if n != len(obj):
        errs.append("%s: Content-Range instance length %d != object length %d" % (where, n, len(obj)))
    if not (0 <= a <= b < len(obj)):
        errs.append("%s: Content-Range %d-%d is outside the %d-byte object" % (where, a, b, len(obj)))
    if body != obj[a:b + 1]:
        errs.append("%s: body (%d bytes, starts %r) is not object[%d:%d] (%d bytes, starts %r)" %
                    (where, len(body), body[:16], a, b + 1, len(obj[a:b + 1]), obj[a:b + 1][:16]))
    return (a, b)


def check(case, status, hdrs, body, timed_out, obj):
    errs = []
    specs = case["range"][len("bytes="):].split(",")
    want = satisfiable(specs, len(obj))
    if timed_out:
        errs.append("response did not finish (client timed out waiting for promised bytes)")
    if status is None:
        errs.append("no parsable response")
        return errs
    if "content-length" in hdrs and int(hdrs["content-length"]) != len(body):
        errs.append("Content-Length %s but %d body bytes received" % (hdrs["content-length"], len(body)))
    if status == 200:
        if body != obj:
            errs.append("200 body (%d bytes, starts %r) is not the complete %d-byte object" %
                        (len(body), body[:16], len(obj)))
    elif status == 416:
        if want:
            errs.append("416 although %r is satisfiable" % (want,))
    elif status == 206:
        ctype = hdrs.get("content-type", "")
        got = []
        if ctype.lower().startswith("multipart/byteranges"):
            m = re.search(r'boundary="?([^";]+)"?', ctype)
            if not m:
                errs.append("multipart without boundary")
                return errs
            delim = b"--" + m.group(1).encode()
            # body: (CRLF delim CRLF headers CRLF CRLF data)* CRLF delim-- CRLF
            pieces = body.split(b"\r\n" + delim)
            if pieces[0] != b"":
                errs.append("garbage before first multipart delimiter: %r" % pieces[0][:32])
            if not pieces[-1].startswith(b"--"):
                errs.append("closing multipart delimiter missing")
                parts = pieces[1:]
            else:
                parts = pieces[1:-1]
            for idx, p in enumerate(parts):
                if not p.startswith(b"\r\n"):
                    errs.append("part %d: malformed delimiter line" % idx)
                    continue
                ph, sep, pb = p[2:].partition(b"\r\n\r\n")
                phd = {}
                for ln in ph.decode("latin-1").split("\r\n"):
                    k, _, v = ln.partition(":")
                    phd[k.strip().lower()] = v.strip()
                got.append(check_part(phd.get("content-range"), pb, obj, "part %d" % idx, errs))
        else:
            got.append(check_part(hdrs.get("content-range"), body, obj, "single part", errs))
        if None not in got and got != want:
            errs.append("206 parts %r do not cover the satisfiable requested ranges %r" % (got, want))
    else:
        errs.append("unexpected status %s" % status)
    return errs


def main():
    tree = os.path.abspath(sys.argv[1])
    cases = json.load(open(sys.argv[2]))
    squid = os.path.join(tree, "src", "squid")
    if not os.access(squid, os.X_OK):
        print("no squid binary at", squid)
        return 2

    oport = free_port()
    origin = ThreadingHTTPServer(("127.0.0.1", oport), Origin)
    threading.Thread(target=origin.serve_forever, daemon=True).start()

    tmp = tempfile.mkdtemp(prefix="c15demo-")
    os.chmod(tmp, 0o777)
    pport = free_port()
    conf = os.path.join(tmp, "squid.conf")
    with open(conf, "w") as f:
        f.write("""
http_port 127.0.0.1:%(pport)d
visible_hostname c15demo
%(euser)s
pid_filename %(tmp)s/squid.pid
cache_log %(tmp)s/cache.log
access_log stdio:%(tmp)s/access.log
coredump_dir %(tmp)s
mime_table %(tree)s/src/mime.conf.default
icon_directory %(tree)s/icons
error_directory %(tree)s/errors/templates
unlinkd_program %(tree)s/src/unlinkd
http_access allow all
shutdown_lifetime 0 seconds
dns_nameservers 127.0.0.1
cache_mem 64 MB
maximum_object_size_in_memory 8 MB
memory_cache_mode always
%(extra)s
""" % dict(pport=pport, tmp=tmp, tree=tree,
           euser="cache_effective_user nobody" if os.getuid() == 0 else "",
           extra="\n".join(cases.get("squid_conf", [])).replace("%TMP%", tmp)))
    if any(l.startswith("cache_dir") for l in cases.get("squid_conf", [])):
        subprocess.call([squid, "-N", "-z", "-f", conf], stdout=subprocess.DEVNULL, stderr=subprocess.DEVNULL)
    proc = subprocess.Popen([squid, "-N", "-f", conf], stdout=subprocess.DEVNULL, stderr=subprocess.DEVNULL)
    rc = 2
    try:
        for _ in range(200):
            if proc.poll() is not None:
                print("squid exited early; see", tmp)
                return 2
            try:
                socket.create_connection(("127.0.0.1", pport), timeout=0.2).close()
                break
            except OSError:
                time.sleep(0.1)
        else:
            print("squid did not start listening")
            return 2

        failures = 0
        for case in cases["cases"]:
            size, seed = case["size"], case.get("seed", 1)
            url = "http://127.0.0.1:%d/o/%d/%d" % (oport, size, seed)
            obj = make_object(size, seed)
            if case.get("prime", True):
                st, hd, bd, to = fetch(pport, url, [])
                if st != 200 or bd != obj:
                    print("FAIL  priming GET for %s returned %s/%d bytes" % (url, st, len(bd)))
                    failures += 1
                    continue
            if case.get("settle"):
                time.sleep(case["settle"])  # let the primed object reach the disk cache
            extra = [tuple(h) for h in case.get("headers", [])]
            st, hd, bd, to = fetch(pport, url, [("Range", case["range"])] + extra)
            alive = proc.poll() is None
            errs = check(case, st, hd, bd, to, obj)
            if not alive:
                errs.append("squid died while serving this request")
            tag = "size=%d %s%s -> %s" % (size, case["range"],
                                         " (uncached)" if not case.get("prime", True) else "", st)
            if errs:
                failures += 1
                print("FAIL  " + tag)
                for e in errs:
                    print("        " + e)
                if not alive:
                    break
            else:
                print("ok    " + tag)
        rc = 1 if failures else 0
        print("%d case(s) violated the property" % failures if failures else "property held for all cases")
    finally:
        if proc.poll() is None:
            proc.send_signal(signal.SIGTERM)
            try:
                proc.wait(timeout=10)
            except subprocess.TimeoutExpired:
                proc.kill()
        origin.shutdown()
        if rc == 0 and not os.environ.get("C15_KEEP"):
            shutil.rmtree(tmp, ignore_errors=True)
        else:
            print("logs kept in", tmp)
    return rc


if __name__ == "__main__":
    sys.exit(main())
