#!/bin/sh
# usage: run.sh [squid-tree-root]   (default: the tree this SEED directory lives in)
# exit 0 = property held, 1 = violated, 2 = harness trouble
here=$(cd "$(dirname "$0")" && pwd)
root=${1:-$(cd "$here/../../.." && pwd)}
exec python3 "$here/rangeharness.py" "$root" "$here/cases.json"
