/*
 * C57 demo glue: like src/tests/stub_store_rebuild.cc, but with the REAL
 * storeRebuildLoadEntry() and storeRebuildParseEntry() taken verbatim from the
 * tree's src/store_rebuild.cc (run.sh extracts them into
 * real_store_rebuild_fragment.inc) so that Rock::Rebuild reads real db slots.
 * The rest of store_rebuild.cc (storeCleanup machinery) stays stubbed, exactly
 * as in testRock.
 */

#include "squid.h"
#include "base/TextException.h"
#include "debug/Messages.h"
#include "fde.h"
#include "globals.h"
#include "MemBuf.h"
#include "StatCounters.h"
#include "Store.h"
#include "store/Controller.h"
#include "store/SwapMetaIn.h"
#include "store_rebuild.h"
#include "time/gadgets.h"

#include <cerrno>
#include <cstring>

void storeRebuildProgress(int, int, int) {}

void StoreRebuildData::updateStartTime(const timeval &dirStartTime)
{
    startTime = started() ? std::min(startTime, dirStartTime) : dirStartTime;
}

void storeRebuildComplete(StoreRebuildData *)
{
    --StoreController::store_dirs_rebuilding;
    if (StoreController::store_dirs_rebuilding == 1)
        --StoreController::store_dirs_rebuilding; // normally in storeCleanup()
}

void Progress::print(std::ostream &) const {}

bool
#include "real_store_rebuild_fragment.inc"
