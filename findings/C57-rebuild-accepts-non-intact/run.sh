#!/bin/bash
# C57 seed 1 demonstration.
# usage: run.sh [tree-root]      (default: the tree containing this SEED dir)
# exit 0 = property held in all scenarios; non-zero = property violated
# (or the harness could not be built).
HERE=$(cd "$(dirname "$0")" && pwd)
ROOT=${1:-$HERE/../../..}
ROOT=$(cd "$ROOT" && pwd) || exit 2
SCENARIOS=${SCENARIOS:-"control extra-single-slot-payload-shrunk extra-orphan-tail extra-steal-unknown-size"}
JOBS=${JOBS:-4}

WORK=$(mktemp -d /tmp/C57-demo1.XXXXXX) || exit 2
trap 'rm -rf "$WORK"' EXIT

# make sure the rock code in libfs.la and the objects/stubs that testRock (and
# hence this harness) links against reflect the current sources
make -j$JOBS -C "$ROOT/src/fs" >"$WORK/make-fs.log" 2>&1 || { cat "$WORK/make-fs.log"; echo "cannot build src/fs"; exit 2; }
make -j$JOBS -C "$ROOT/src" tests/testRock >"$WORK/make-testRock.log" 2>&1 || { tail -30 "$WORK/make-testRock.log"; echo "cannot build testRock prerequisites"; exit 2; }

# real storeRebuildLoadEntry()/storeRebuildParseEntry() from this tree
sed -n '/^storeRebuildLoadEntry(/,$p' "$ROOT/src/store_rebuild.cc" > "$WORK/real_store_rebuild_fragment.inc"
grep -q storeRebuildParseEntry "$WORK/real_store_rebuild_fragment.inc" || { echo "cannot extract store_rebuild.cc fragment"; exit 2; }

cd "$ROOT/src" || exit 2
CXXFLAGS="-std=c++17 -DHAVE_CONFIG_H -I.. -I../include -I../lib -I../src -I../src/tests -I$WORK -isystem /usr/include/mit-krb5 -I/usr/include/p11-kit-1 -Wall -pipe -D_REENTRANT -g"
g++ $CXXFLAGS -c -o "$WORK/rebuildGlue.o" "$HERE/rebuildGlue.cc" || exit 2
g++ $CXXFLAGS -c -o "$WORK/rebuildHarness.o" "$HERE/rebuildHarness.cc" || exit 2

# same link recipe as tests/testRock, with tests/testRock.o -> rebuildHarness.o
# and tests/stub_store_rebuild.o -> rebuildGlue.o
/bin/bash ../libtool --quiet --tag=CXX --mode=link g++ -std=c++17 -pipe -D_REENTRANT -g -o "$WORK/harness" \
 unlinkd.o AccessLogEntry.o tests/stub_CacheDigest.o tests/stub_CachePeer.o CollapsedForwarding.o ConfigOption.o ConfigParser.o ETag.o EventLoop.o FadingCounter.o tests/stub_HelperChildConfig.o HttpBody.o HttpHdrCc.o HttpHdrContRange.o HttpHdrRange.o HttpHdrSc.o HttpHdrScTarget.o HttpHeader.o HttpHeaderTools.o HttpReply.o tests/stub_HttpRequest.o tests/stub_Instance.o LogTags.o MasterXaction.o MemBuf.o MemObject.o MemStore.o Notes.o Parsing.o tests/stub_Port.o RemovalPolicy.o RequestFlags.o ResolvedPeers.o "$WORK/rebuildHarness.o" StatCounters.o tests/stub_StatHist.o StoreFileSystem.o StoreIOState.o tests/testStoreSupport.o StoreSwapLogData.o StrList.o String.o Transients.o tests/stub_access_log.o tests/stub_cache_cf.o tests/stub_cache_manager.o cbdata.o tests/stub_client_db.o tests/stub_client_side.o tests/stub_client_side_request.o tests/stub_debug.o tests/stub_errorpage.o event.o fatal.o fd.o fde.o filemap.o tests/stub_fqdncache.o fs_io.o tests/stub_http.o tests/stub_icp.o int.o tests/stub_ipc.o tests/stub_ipcache.o tests/stub_libanyp.o tests/stub_libauth.o tests/stub_liberror.o tests/stub_libeui.o tests/stub_libformat.o tests/stub_libicmp.o tests/stub_libip.o tests/stub_liblog.o tests/stub_libmgr.o tests/stub_libsecurity.o mem_node.o tests/stub_mime.o tests/stub_neighbors.o tests/stub_pconn.o tests/stub_stat.o stmem.o store.o tests/stub_store_client.o store_io.o store_key_md5.o "$WORK/rebuildGlue.o" tests/stub_store_stats.o store_swapout.o tests/stub_tools.o wordlist.o test_tools.o globals.o SquidMath.o hier_code.o swap_log_op.o http/libhttp.la parser/libparser.la libsquid.la comm/libcomm.la fs/libfs.la repl/liblru.a DiskIO/libdiskio.la acl/libacls.la acl/libapi.la acl/libstate.la anyp/libanyp.la eui/libeui.la ipc/libipc.la base/libbase.la mem/libmem.la store/libstore.la adaptation/libadaptation.la sbuf/libsbuf.la time/libtime.la ../lib/libmisccontainers.la ../lib/libmiscencoding.la ../lib/libmiscutil.la -lcppunit -lgnutls ../compat/libcompatsquid.la -lnettle -lm -lnsl || { echo "cannot link harness"; exit 2; }

mkdir -p "$WORK/run" && cd "$WORK/run" || exit 2
failed=0
for s in $SCENARIOS; do
    C57_SCENARIO=$s "$WORK/harness" > "$WORK/out.txt" 2>&1
    rc=$?
    grep -E "^(== scenario|readable entry|violations:|HARNESS PROBLEM)" "$WORK/out.txt"
    if [ $rc -eq 0 ]; then
        echo "RESULT $s: property held"
    else
        echo "RESULT $s: PROPERTY VIOLATED (harness exit $rc)"
        grep -vE "^(SKIP:|== scenario|readable entry|violations:|$)" "$WORK/out.txt" | tail -15
        failed=1
    fi
done
if [ $failed -ne 0 ]; then
    echo "C57 seed 1 demo: FAIL (property violated)"
    exit 1
fi
echo "C57 seed 1 demo: PASS (property held)"
exit 0
