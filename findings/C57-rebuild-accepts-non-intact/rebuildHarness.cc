/*
 * C57 demonstration harness: build a rock db image by hand (valid entries,
 * then scenario-specific mutations), let the real Rock::Rebuild index it, and
 * then walk the resulting map checking that every readable entry has a
 * complete, acyclic, private slot chain whose slice sizes add up to the entry
 * size.
 *
 * Modelled after src/tests/testRock.cc (same startup and link recipe).
 * The scenario is selected with the C57_SCENARIO environment variable.
 */

#include "squid.h"
#include "compat/cppunit.h"
#include "ConfigParser.h"
#include "DiskIO/DiskIOModule.h"
#include "fde.h"
#include "fs/rock/RockDbCell.h"
#include "fs/rock/RockSwapDir.h"
#include "globals.h"
#include "HttpHeader.h"
#include "HttpReply.h"
#include "ipc/StoreMap.h"
#include "MemObject.h"
#include "RequestFlags.h"
#include "SquidConfig.h"
#include "Store.h"
#include "store/Disk.h"
#include "store/Disks.h"
#include "store/SwapMeta.h"
#include "StoreFileSystem.h"
#include "StoreSearch.h"
#include "testStoreSupport.h"
#include "unitTestMain.h"

#include <cstdio>
#include <cstdlib>
#include <cstring>
#include <fcntl.h>
#include <map>
#include <set>
#include <stdexcept>
#include <string>
#include <sys/stat.h>
#include <unistd.h>
#include <vector>

#define TESTDIR "c57dir"

/// exposes protected Rock::SwapDir parts to the harness
class OpenSwapDir: public Rock::SwapDir
{
public:
    Rock::SwapDir::DirMap &theMap() { return *map; }
    const char *dbPath() const { return filePath; }
    static int64_t DbHeaderSize() { return 16*1024; } // Rock::SwapDir::HeaderSize (private)
};

/// one hand-made db slot
struct SlotSpec {
    int id = -1;
    uint64_t key[2] = {0, 0};
    uint64_t entrySize = 0;
    uint32_t payloadSize = 0;
    uint32_t version = 0;
    int firstSlot = 0;
    int nextSlot = -1;
    uint64_t metaSwapFileSz = 0; ///< swap_file_sz inside STORE_META_STD_LFS (inodes)
    bool zeroPayload = false; ///< leave payload (including swap meta) zeroed
    bool zeroAll = false; ///< write an all-zeros slot
};

class TestC57 : public CPPUNIT_NS::TestFixture
{
    CPPUNIT_TEST_SUITE(TestC57);
    CPPUNIT_TEST(testScenario);
    CPPUNIT_TEST_SUITE_END();

public:
    void setUp() override;
    void tearDown() override;

protected:
    void testScenario();

    void rebuild();
    void writeSlot(const SlotSpec &s);
    void writeImage();
    std::vector<SlotSpec> entry(const int keyNo, const std::vector<int> &chain, const std::vector<uint32_t> &payloads, const bool sizeInInode);
    void add(const std::vector<SlotSpec> &v) { for (const auto &s: v) image[s.id] = s; }
    bool readable(const int keyNo);
    unsigned int checkMap(); ///< returns the number of property violations

private:
    RefCount<OpenSwapDir> store;
    Rock::SwapDirRr *rr = nullptr;
    std::map<int, SlotSpec> image;
};
CPPUNIT_TEST_SUITE_REGISTRATION(TestC57);

static void
KeyFor(const int keyNo, uint64_t *key)
{
    // StoreMap::nameByKey() is (k[0]+k[1]) % entryLimit; keep filenos distinct
    key[0] = 0x1000 + keyNo;
    key[1] = 0;
}

void
TestC57::setUp()
{
    CPPUNIT_NS::TestFixture::setUp();

    if (0 > system("rm -rf " TESTDIR))
        throw std::runtime_error("Failed to clean test work directory");

    store = new OpenSwapDir();

    allocate_new_swapdir(Config.cacheSwap);
    Config.cacheSwap.swapDirs[Config.cacheSwap.n_configured] = store.getRaw();
    ++Config.cacheSwap.n_configured;

    char *path = xstrdup(TESTDIR);
    char *config_line = xstrdup("10 max-size=65536");
    ConfigParser::SetCfgLine(config_line);
    store->parse(0, path);
    store_maxobjsize = 1024*1024*2;
    safe_free(path);
    safe_free(config_line);

    store->create();

    rr = new Rock::SwapDirRr;
    rr->useConfig();
}

void
TestC57::tearDown()
{
    CPPUNIT_NS::TestFixture::tearDown();
    store = nullptr;
    free_cachedir(&Config.cacheSwap);
    rr->finishShutdown(); // deletes rr
    rr = nullptr;
    if (0 > system("rm -rf " TESTDIR))
        throw std::runtime_error("Failed to clean test work directory");
}

void
TestC57::rebuild()
{
    Store::Root().init();
    StockEventLoop loop;
    CPPUNIT_ASSERT_EQUAL(2, StoreController::store_dirs_rebuilding);
    loop.run();
    CPPUNIT_ASSERT_EQUAL(0, StoreController::store_dirs_rebuilding);
}

void
TestC57::writeSlot(const SlotSpec &s)
{
    const auto slotSize = static_cast<size_t>(store->slotSize);
    std::vector<char> raw(slotSize, 0);

    if (!s.zeroAll) {
        Rock::DbCellHeader h;
        h.key[0] = s.key[0];
        h.key[1] = s.key[1];
        h.entrySize = s.entrySize;
        h.payloadSize = s.payloadSize;
        h.version = s.version;
        h.firstSlot = s.firstSlot;
        h.nextSlot = s.nextSlot;
        memcpy(raw.data(), &h, sizeof(h));

        char *p = raw.data() + sizeof(h);
        if (!s.zeroPayload) {
            if (s.firstSlot == s.id) {
                // swap meta: magic, total length, KEY_MD5 field, STD_LFS field
                const int keyLen = 16;
                const int stdLen = static_cast<int>(Store::STORE_HDR_METASIZE);
                const int total = 1 + sizeof(int) + (1 + sizeof(int) + keyLen) + (1 + sizeof(int) + stdLen);
                char *q = p;
                *q++ = Store::SwapMetaMagic;
                memcpy(q, &total, sizeof(total));
                q += sizeof(total);
                *q++ = static_cast<char>(Store::STORE_META_KEY_MD5);
                memcpy(q, &keyLen, sizeof(keyLen));
                q += sizeof(keyLen);
                memcpy(q, s.key, keyLen);
                q += keyLen;
                *q++ = static_cast<char>(Store::STORE_META_STD_LFS);
                memcpy(q, &stdLen, sizeof(stdLen));
                q += sizeof(stdLen);
                struct {
                    time_t timestamp, lastref, expires, lastmod;
                    uint64_t swap_file_sz;
                    uint16_t refcount, flags;
                } basics;
                memset(&basics, 0, sizeof(basics));
                basics.timestamp = s.version;
                basics.lastref = s.version;
                basics.expires = s.version + 100000;
                basics.lastmod = -1;
                basics.swap_file_sz = s.metaSwapFileSz;
                basics.refcount = 1;
                basics.flags = 0;
                memcpy(q, &basics, stdLen);
                q += stdLen;
                memset(q, 'H', 64); // pretend HTTP header bytes
            } else {
                memset(p, 'B', 256); // pretend body bytes
            }
        }
    }

    const int fd = open(store->dbPath(), O_WRONLY);
    CPPUNIT_ASSERT(fd >= 0);
    const off_t off = OpenSwapDir::DbHeaderSize() + static_cast<off_t>(s.id) * slotSize;
    CPPUNIT_ASSERT_EQUAL(static_cast<ssize_t>(slotSize), pwrite(fd, raw.data(), slotSize, off));
    close(fd);
}

void
TestC57::writeImage()
{
    for (const auto &i: image)
        writeSlot(i.second);
}

/// A valid entry occupying the given slot chain (chain[0] is the inode).
/// Mimics Rock::IoState: only the last written slot knows the entry size, so
/// multi-slot inodes carry entrySize 0 unless sizeInInode is requested (as
/// happens for single-slot entries).
std::vector<SlotSpec>
TestC57::entry(const int keyNo, const std::vector<int> &chain, const std::vector<uint32_t> &payloads, const bool sizeInInode)
{
    std::vector<SlotSpec> v;
    uint64_t total = 0;
    for (const auto p: payloads)
        total += p;
    for (size_t i = 0; i < chain.size(); ++i) {
        SlotSpec s;
        s.id = chain[i];
        KeyFor(keyNo, s.key);
        s.version = 1000 + keyNo;
        s.firstSlot = chain[0];
        s.nextSlot = (i + 1 < chain.size()) ? chain[i+1] : -1;
        s.payloadSize = payloads[i];
        const bool last = (i + 1 == chain.size());
        s.entrySize = (last || (i == 0 && sizeInInode)) ? total : 0;
        v.push_back(s);
    }
    return v;
}

bool
TestC57::readable(const int keyNo)
{
    uint64_t key[2];
    KeyFor(keyNo, key);
    sfileno fileno = -1;
    auto &map = store->theMap();
    if (map.openForReading(reinterpret_cast<const cache_key*>(key), fileno)) {
        map.closeForReading(fileno);
        return true;
    }
    return false;
}

unsigned int
TestC57::checkMap()
{
    auto &map = store->theMap();
    unsigned int violations = 0;
    std::map<int, int> slotOwner; // slot -> fileno of the readable entry using it
    const int slotLimit = map.sliceLimit();

    for (int fileno = 0; fileno < map.entryLimit(); ++fileno) {
        const auto &peek = map.peekAtEntry(fileno);
        if (peek.empty())
            continue;
        uint64_t key[2] = { peek.key[0], peek.key[1] };
        const auto anchor = map.openForReadingAt(fileno, reinterpret_cast<const cache_key*>(key));
        if (!anchor)
            continue; // not readable

        const uint64_t entrySize = anchor->basics.swap_file_sz;
        printf("readable entry fileno=%d key=%#llx size=%llu chain:", fileno,
               static_cast<unsigned long long>(key[0]), static_cast<unsigned long long>(entrySize));

        std::set<int> seen;
        uint64_t sum = 0;
        int slotId = anchor->start;
        bool bad = false;
        if (slotId < 0) {
            printf(" [VIOLATION: no slots]");
            bad = true;
        }
        while (slotId >= 0) {
            printf(" %d", slotId);
            if (slotId >= slotLimit) {
                printf(" [VIOLATION: out of range]");
                bad = true;
                break;
            }
            if (!seen.insert(slotId).second) {
                printf(" [VIOLATION: cycle]");
                bad = true;
                break;
            }
            const auto owner = slotOwner.find(slotId);
            if (owner != slotOwner.end()) {
                printf(" [VIOLATION: slot also used by readable entry %d]", owner->second);
                bad = true;
            }
            slotOwner[slotId] = fileno;

            // ground truth: what is really stored in that db slot?
            const auto spec = image.find(slotId);
            if (spec == image.end() || spec->second.zeroAll) {
                printf(" [VIOLATION: chain includes an empty db slot]");
                bad = true;
            } else if (spec->second.key[0] != key[0] || spec->second.key[1] != key[1]) {
                printf(" [VIOLATION: chain includes a slot of another key]");
                bad = true;
            } else if (seen.size() == 1 && spec->second.firstSlot != slotId) {
                printf(" [VIOLATION: chain does not start at an inode]");
                bad = true;
            }

            const auto &slice = map.readableSlice(fileno, slotId);
            sum += slice.size;
            slotId = slice.next;
        }
        if (sum != entrySize) {
            printf(" [VIOLATION: slice sizes add up to %llu, not %llu]",
                   static_cast<unsigned long long>(sum), static_cast<unsigned long long>(entrySize));
            bad = true;
        }
        printf("\n");
        if (bad)
            ++violations;
        map.closeForReading(fileno);
    }
    return violations;
}

void
TestC57::testScenario()
{
    const char *raw = getenv("C57_SCENARIO");
    const std::string scenario = raw ? raw : "control";
    printf("\n== scenario: %s\n", scenario.c_str());

    /* valid base image */
    // key 1: single-slot entry in slot 1
    add(entry(1, {1}, {700}, true));
    // key 2: two-slot entry 2 -> 3
    add(entry(2, {2, 3}, {16000, 900}, false));
    // key 3: three-slot entry stored "backwards": inode 9 -> 7 -> 5
    add(entry(3, {9, 7, 5}, {16000, 16000, 1200}, false));
    // key 4: single-slot entry in slot 11
    add(entry(4, {11}, {450}, true));

    std::set<int> mustBeReadable = {1, 2, 3, 4};

    if (scenario == "control") {
        // no mutations
    } else if (scenario == "tail-next-into-other-entry") {
        // chain link mutation: the last slot of entry 2 points to entry 1's slot
        image[3].nextSlot = 1;
        mustBeReadable.erase(2);
    } else if (scenario == "tail-next-into-free-slot") {
        // chain link mutation: the last slot of entry 2 points to an empty slot
        image[3].nextSlot = 20;
        mustBeReadable.erase(2);
    } else if (scenario == "tail-next-into-own-inode") {
        // chain link mutation: the last slot of entry 3 points back to its inode
        image[5].nextSlot = 9;
        mustBeReadable.erase(3);
    } else if (scenario == "single-slot-payload-grown") {
        // slot header field mutation: payloadSize exceeds inode entrySize
        image[1].payloadSize += 50;
        mustBeReadable.erase(1);
    } else if (scenario == "inode-last-payload-grown") {
        // as above, for a multi-slot entry with inode-known size, inode loaded last
        image[9].entrySize = 16000 + 16000 + 1200;
        image[5].payloadSize += 100;
        mustBeReadable.erase(3);
    } else if (scenario == "inode-first-payload-grown") {
        // as above, but the inode is loaded first
        image[2].entrySize = 16000 + 900;
        image[3].payloadSize += 100;
        mustBeReadable.erase(2);
    /* The "extra-*" scenarios below are NOT part of the seeded-bug demos: the
     * unmodified tree already fails them (see README "side observations"). */
    } else if (scenario == "extra-single-slot-payload-shrunk") {
        image[1].payloadSize -= 50;
        mustBeReadable.erase(1);
    } else if (scenario == "extra-orphan-tail") {
        // inode slot zeroed; the rest of the chain remains
        image[2].zeroAll = true;
        mustBeReadable.erase(2);
    } else if (scenario == "extra-steal-unknown-size") {
        // entry 2's inode links into entry 4's only slot while entry 4 size is unknown
        image[2].nextSlot = 11;
        image[3].payloadSize = 450;
        image[2].payloadSize = 16000;
        image[3].entrySize = 0;
        image[11].entrySize = 0;
        mustBeReadable.erase(2);
        mustBeReadable.erase(4);
    } else {
        CPPUNIT_FAIL("unknown C57_SCENARIO");
    }

    writeImage();
    rebuild();

    const auto violations = checkMap();
    printf("violations: %u\n", violations);

    // sanity: the untouched valid entries must have been indexed
    for (const auto keyNo: mustBeReadable) {
        if (!readable(keyNo)) {
            printf("HARNESS PROBLEM: intact entry with key #%d was not indexed\n", keyNo);
            CPPUNIT_FAIL("intact entry was not indexed");
        }
    }

    fflush(stdout);
    CPPUNIT_ASSERT_EQUAL(0U, violations);
}

/// customizes our test setup
class MyTestProgram: public TestProgram
{
public:
    /* TestProgram API */
    void startup() override;
};

void
MyTestProgram::startup()
{
    Config.memShared.defaultTo(false);
    Config.shmLocking.defaultTo(false);

    // use current directory for shared segments (on path-based OSes)
    static char cwd[MAXPATHLEN];
    Ipc::Mem::Segment::BasePath = getcwd(cwd, MAXPATHLEN);
    if (!Ipc::Mem::Segment::BasePath)
        Ipc::Mem::Segment::BasePath = ".";

    Config.Store.avgObjectSize = 1024;
    Config.Store.objectsPerBucket = 20;
    Config.Store.maxObjectSize = 2048;

    Config.store_dir_select_algorithm = xstrdup("round-robin");

    Config.replPolicy = new RemovalPolicySettings;
    Config.replPolicy->type = xstrdup("lru");
    Config.replPolicy->args = nullptr;

    /* garh garh */
    extern REMOVALPOLICYCREATE createRemovalPolicy_lru;
    storeReplAdd("lru", createRemovalPolicy_lru);

    visible_appname_string = xstrdup(APP_FULLNAME);

    Mem::Init();
    fde::Init();
    comm_init();
    httpHeaderInitModule(); /* must go before any header processing (e.g. the one in errorInitialize) */

    mem_policy = createRemovalPolicy(Config.replPolicy);
}

int
main(int argc, char *argv[])
{
    return MyTestProgram().run(argc, argv);
}
