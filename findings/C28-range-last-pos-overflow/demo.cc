#include "squid.h"
#include "HttpHeaderRange.h"
#include "SquidString.h"
#include <cstdio>
#include <cinttypes>
int main() {
    const char *in[] = {"bytes=0-9223372036854775806", "bytes=0-9223372036854775807", "bytes=5-9223372036854775807"};
    for (const char *s : in) {
        String v(s);
        HttpHdrRange *r = HttpHdrRange::ParseCreate(&v);
        if (!r) { printf("%s -> ignored\n", s); continue; }
        HttpHdrRangeSpec *spec = *r->begin();
        printf("%s -> specs=%d offset=%" PRId64 " length=%" PRId64 "\n", s, (int)r->specs.size(), spec->offset, spec->length);
        delete r;
    }
    return 0;
}
