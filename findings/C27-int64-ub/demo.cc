#include "squid.h"
#include "parser/Tokenizer.h"
#include "sbuf/SBuf.h"
#include <cstdio>
#include <cinttypes>
int main() {
    const char *in[] = {"-9223372036854775808", "-9223372036854775807", "9223372036854775807", "-9223372036854775809"};
    for (const char *s : in) {
        Parser::Tokenizer tok{SBuf(s)};
        int64_t v = 0;
        const bool ok = tok.int64(v, 10, true);
        printf("%s -> ok=%d v=%" PRId64 " rest=%u\n", s, ok, v, (unsigned)tok.remaining().length());
    }
    return 0;
}
